"""C01 - attack-graph edges are exactly the MAL meaning of the step expressions.
Sem!EdgesLo/EdgesHi (interval semantics for `transitive`) evaluated by TLC on every model reachable through accepted
ModelSM calls in bounded universes, for every library language (set operators over siblings, transitive over reflexive
associations incl. cycles and self-links, variables + inheritance, subtype filters, exist/notExist, duplicate
association names, multi-level override/extend); each pair replayed: Lo <= children <= Hi, parents = children^-1,
termination within the per-case limit."""
from checks import graphgen
LEVEL = 'model_checking'


def run(run):
    quick = run.tier == 'quick'
    run.rule = ('cases = distinct (language, model) pairs enumerated by TLC (BFS over accepted ModelSM calls, one '
                'representative per model); replayed by building the model and AttackGraph; non-trivial = expected '
                'upper edge bound non-empty; distinct by (language, assets, links)')
    run.assumptions = ['models are built with valid calls only (validity is C06)',
                       'transitive: only closure+ <= result <= closure* is asserted']
    graphgen.run_plan(run, graphgen.is_c01, quick)
