"""C01 - attack-graph edges are exactly the MAL meaning of the step expressions.
Sem!EdgesLo/EdgesHi (interval semantics for `transitive`) evaluated by TLC on every model reachable through accepted
ModelSM calls in bounded universes, for every library language (set operators over siblings, transitive over reflexive
associations incl. cycles and self-links, variables + inheritance, subtype filters, exist/notExist, duplicate
association names, multi-level override/extend); each pair replayed: Lo <= children <= Hi, parents = children^-1,
termination within the per-case limit."""
from checks import graphgen
LEVEL = 'model_checking'


def run(run):
    quick = run.tier == 'quick'
    run.rule = ('cases = distinct (language, model) pairs enumerated by TLC (BFS over accepted ModelSM calls, one '
                'representative per model); replayed by building the model and AttackGraph; non-trivial = expected '
                'upper edge bound non-empty; distinct by (language, assets, links)')
    run.assumptions = ['models are built with valid calls only (validity is C06)',
                       'transitive: only closure+ <= result <= closure* is asserted']
    graphgen.run_plan(run, graphgen.is_c01, quick)
    # models reached by arbitrary API histories (removals, re-adds, rejected calls), graph compared at the end
    for lang, depth in (('LTiny', 3), ('LTrans', 3)) if quick else (('LTiny', 4), ('LTrans', 3), ('LSet', 3), ('LOne', 3)):
        run.gen_replay('Gen_Model', 'Gen_Model_states.cfg' if quick else 'Gen_Model.cfg', 'harness.replay_model_graph', {'langs': run.libs(), 'each_step': True},
                       env={'VERIF_LANG': lang, 'VERIF_DEPTH': depth, 'VERIF_MAXREJ': 0, 'VERIF_GRAPH': 1}, timeout=2400,
                       name='attack graph after ModelSM behaviours of depth %d on %s (%s)' % (depth, lang, 'one per distinct state' if quick else 'every accepted behaviour'), keep=graphgen.is_c01)
    # the graph regenerated after every association edit (caches between model and graph would show here)
    for lang, na, k in ((('LTrans', 2, 3),) if quick else (('LTiny', 3, 2), ('LTrans', 3, 3), ('LSet', 3, 2))):
        run.gen_replay('Gen_Model', 'Gen_Model_c06.cfg', 'harness.replay_model_graph', {'langs': run.libs(), 'each_step': True},
                       env={'VERIF_LANG': lang, 'VERIF_DEPTH': na + k, 'VERIF_NASSETS': na, 'VERIF_BUILDFIRST': 1, 'VERIF_BUILDOPS': 'assoc',
                            'VERIF_MAXMEMBERS': 2, 'VERIF_MAXASSETS': na, 'VERIF_NODEF': 1, 'VERIF_MAXREJ': 0, 'VERIF_GRAPH': 1},
                       timeout=2400, keep=graphgen.is_c01,
                       name='%d assets then every history of %d association edits / removals, graph after every step, %s' % (na, k, lang))
    run.gen_replay('Gen_Model', 'Gen_Model_sim.cfg', 'harness.replay_model_graph', {'langs': run.libs(), 'each_step': True},
                   env={'VERIF_LANG': 'LTiny', 'VERIF_DEPTH': 10, 'VERIF_MAXREJ': 2, 'VERIF_GRAPH': 1}, simulate=10 ** 9, depth=11,
                   max_cases=4000 if quick else 80000, workers=8, timeout=300 if quick else 2400, keep=graphgen.is_c01,
                   name='attack graph after random ModelSM behaviours of depth 10 on LTiny')
