"""C02 - one node per asset x step, with attributes faithful to model and language; unique ids / full names; exact
lookups. Sem!NodesOf (over Lang!Fold) evaluated by TLC for the same (language, model) pairs as C01; the replay compares
the node set, kind / TTC / tags / MITRE info / defense status / existence status per node and probes lookups."""
from checks import graphgen
LEVEL = 'model_checking'


def run(run):
    quick = run.tier == 'quick'
    run.rule = ('cases = distinct (language, model) pairs enumerated by TLC; each replayed: node set, per-node attributes, '
                'id/full-name uniqueness, get_node_by_id / get_node_by_full_name for every node and absent keys; '
                'non-trivial = model with at least one expected edge; distinct by (language, assets, links)')
    run.assumptions = ['existence status compared only when the transitive interval determines it']
    graphgen.run_plan(run, graphgen.is_c02, quick)
    # the uniqueness clause along API histories, including those at which the rename policy collides with a live name
    run.gen_replay('Gen_Model', 'Gen_Model.cfg', 'harness.replay_model_graph', {'langs': run.libs()},
                   env={'VERIF_LANG': 'LTiny', 'VERIF_DEPTH': 3, 'VERIF_MAXREJ': 0}, timeout=1500,
                   name='attack graph after every accepted ModelSM behaviour of depth 3 (rename collisions included)')
