"""C03 - step inheritance resolves override / extend correctly and the lookup is pure.
Lang!Fold is the definition; TLC checks FoldIgnoresOthers (what a type exposes never depends on descendants or
siblings) on every member of the InheritFamily (2 x 4^5 languages) and enumerates LookupSM histories (lookups of any
type, language-graph regenerations, attack-graph generations - none changes the language); each history is replayed:
every answer = Fold(L, T), the caller's specification dict deep-equal to its snapshot after every step."""
LEVEL = 'model_checking'


def run(run):
    quick = run.tier == 'quick'
    run.rule = ('cases = (language of the InheritFamily, history of <= d operations) pairs enumerated by TLC; replayed against '
                'LanguageGraph; non-trivial = language in which some level redeclares the step; distinct by (language, history)')
    A = 'harness.replay_fold'
    run.gen_replay('Gen_Fold', 'Gen_Fold.cfg', A, {}, env={'VERIF_DEPTH': 1}, timeout=900,
                   name='all 2048 family languages x every single operation')
    if quick:
        run.gen_replay('Gen_Fold', 'Gen_Fold.cfg', A, {}, env={'VERIF_DEPTH': 3, 'VERIF_SLICES': 64, 'VERIF_SLICE': run.seed % 64},
                       timeout=900, name='seeded 1/64 of the family x every history of 3 operations')
    else:
        run.gen_replay('Gen_Fold', 'Gen_Fold.cfg', A, {}, env={'VERIF_DEPTH': 3, 'VERIF_SLICES': 4, 'VERIF_SLICE': run.seed % 4},
                       timeout=3000, name='1/4 of the family x every history of 3 operations')
        run.gen_replay('Gen_Fold', 'Gen_Fold.cfg', A, {}, env={'VERIF_DEPTH': 4, 'VERIF_SLICES': 128, 'VERIF_SLICE': run.seed % 128},
                       timeout=3000, name='seeded 1/128 of the family x every history of 4 operations')
    # the library languages through the C01/C02 generator exercise Fold on arbitrary languages as well
