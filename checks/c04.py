"""C04 - the MAL compiler's output is the language the source text denotes.
The concrete syntax is part of the specification: Tok prints a language record as a token sequence with minimal
parentheses (precedence and left associativity of the set operators, collect, postfix '*' and '[T]'; TTC arithmetic),
Files distributes the declarations over included files in six layouts. TLC enumerates: every library language and a
kitchen-sink language x every layout; one step per step-expression AST of bounded depth; one step per TTC AST of bounded
depth; coreLang's langspec.json (from the .mar) read into TLC and printed. Each is rendered, compiled by MalCompiler and
compared with the record it was printed from (translation validation: print -> compile = identity)."""
import json
import os
import zipfile
LEVEL = 'translation_validation'


def run(run):
    from harness import materialise, tlc
    quick = run.tier == 'quick'
    run.rule = ('programs = (language record, layout) pairs printed by TLC; disagreement = any difference between the '
                'compiled specification and the record (top-level declarations compared as sets, everything inside an '
                'asset in order); non-trivial = every program; distinct by (language id, layout)')
    run.assumptions = ['meta strings are ASCII without quotes (non-ASCII characters of coreLang metas are normalised)',
                       'numbers are printed with the decimal text of their float value']
    repo = os.environ.get('VERIF_REPO', '/repo')
    mar = os.path.join(repo, 'tests', 'testdata', 'org.mal-lang.coreLang-1.0.0.mar')
    spec = json.loads(zipfile.ZipFile(mar).read('langspec.json'))
    ext = os.path.join(tlc.scratch('ext'), 'corelang_record.json')
    with open(ext, 'w') as f:
        json.dump(materialise.record_of(spec), f)
    run.gen_replay('Gen_Syntax', 'Gen_Syntax.cfg', 'harness.replay_syntax', {},
                   env={'VERIF_EXTLANG': ext, 'VERIF_EXPRDEPTH': 1, 'VERIF_TTCDEPTH': 1}, timeout=900,
                   name='library + kitchen sink x 6 layouts, coreLang x 3 layouts, expression / TTC ASTs of depth 1')
    run.gen_replay('Gen_Syntax', 'Gen_Syntax.cfg', 'harness.replay_syntax', {},
                   env={'VERIF_EXPRDEPTH': 2, 'VERIF_TTCDEPTH': 2, 'VERIF_SMALLBASE': 1}, timeout=1500,
                   name='expression ASTs and TTC ASTs of depth 2 (2002 + 2442 shapes)')
    if not quick:
        run.gen_replay('Gen_Syntax', 'Gen_Syntax.cfg', 'harness.replay_syntax', {},
                       env={'VERIF_EXPRDEPTH': 2, 'VERIF_TTCDEPTH': 1, 'VERIF_SMALLBASE': 0, 'VERIF_CHUNK': 200}, timeout=3000,
                       name='expression ASTs of depth 2 over three atoms (8k shapes)')
    run.extra['programs'] = run.cases
    run.extra['disagreements_checked'] = run.cases
