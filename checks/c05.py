"""C05 - the instance model stays coherent under any history of edits.
(A) ModelSM invariants + action properties, exhaustive in sliced universes;
(B) every ModelSM behaviour of bounded depth (BFS) and random long ones (-simulate), refined to the documented
    id/name policy, replayed step by step into the real Model with the projection compared after every step."""
LEVEL = 'model_checking'

MODEL_ADAPTER = 'harness.replay_model'


def run(run):
    quick = run.tier == 'quick'
    langs = run.libs()
    run.rule = ('cases = ModelSM behaviours emitted by TLC (BFS: every behaviour of the stated depth; -simulate: random '
                'walks), each replayed into maltoolbox.model.Model with the observation (assets, associations, '
                'neighbours per field, back references, attackers/entry points, lookups by id and name) compared '
                'after every step; non-trivial = behaviour with at least two state-changing steps; distinct = by '
                'action sequence')
    run.assumptions = ['python_jsonschema_objects is trusted', 'handles identify Python objects (harness map)',
                       'documented naming policy "<name>:<id>" used as generation refinement only']
    # regression corpus first (expected observations recomputed by TLC from the stored action sequences)
    run.corpus_model()
    # (A) design level
    run.mc('MC_Model', 'MC_Model_A.cfg', env={'VERIF_LANG': 'LTiny', 'VERIF_MAXH': 3},
           timeout=1500, name='assets+associations slice',
           must_cover=('AddAssetOK', 'AddAssetRej', 'RemoveAssetOK', 'RemoveAssetRej', 'AddAssociation',
                       'RemoveAssociationOK', 'RemoveFromAssoc'))
    run.mc('MC_Model', 'MC_Model_B.cfg', env={'VERIF_LANG': 'LTiny'}, timeout=1500,
           name='attackers+defenses+extras slice',
           must_cover=('AddAttacker', 'RemoveAttackerOK', 'AddEntryPoint', 'RemoveEntryPoint', 'SetDefense',
                       'SetAssetExtras'))
    run.mc('MC_Model', 'MC_Model_R.cfg', env={'VERIF_LANG': 'LTiny', 'VERIF_MAXH': 3}, timeout=1500,
           name='re-add slice: removed / rejected objects handed in again (assets, associations, attackers)',
           must_cover=('AddAssetOK', 'AddAssetRej', 'RemoveAssetOK', 'AddAssociation', 'AddAttacker', 'RemoveAttackerOK'))
    # (B) spec -> code
    args = {'langs': langs}
    run.gen_replay('Gen_Model', 'Gen_Model.cfg', MODEL_ADAPTER, args,
                   env={'VERIF_LANG': 'LTiny', 'VERIF_DEPTH': 3, 'VERIF_MAXREJ': 1 if quick else 99}, timeout=1500,
                   name='BFS depth 3 LTiny' + (' (at most one rejected call per history)' if quick else ''))
    for lang, depth in (('LDup', 2), ('LTrans', 2)) if quick else (('LDup', 3), ('LTrans', 3), ('LSet', 3)):
        run.gen_replay('Gen_Model', 'Gen_Model.cfg', MODEL_ADAPTER, args,
                       env={'VERIF_LANG': lang, 'VERIF_DEPTH': depth}, timeout=1800, name='BFS depth %d %s' % (depth, lang))
    # association-focused: the assets first, then EVERY history of association edits (add, shrink, remove, hand a
    # removed / rejected object in again) and asset removals / re-adds
    for lang, na, k, mm in ((('LTrans', 2, 3, 2),) if quick else (('LTrans', 2, 4, 2), ('LTrans', 3, 3, 2), ('LTiny', 3, 2, 2), ('LDup', 3, 2, 2))):
        run.gen_replay('Gen_Model', 'Gen_Model_c06.cfg', MODEL_ADAPTER, args,
                       env={'VERIF_LANG': lang, 'VERIF_DEPTH': na + k, 'VERIF_NASSETS': na, 'VERIF_BUILDFIRST': 1, 'VERIF_BUILDOPS': 'assoc',
                            'VERIF_MAXMEMBERS': mm, 'VERIF_MAXASSETS': na, 'VERIF_NODEF': 1, 'VERIF_MAXREJ': 1, 'VERIF_READD': 1},
                       timeout=2400, name='%d assets then every history of %d association edits / removals / re-adds, %s' % (na, k, lang))
    # attacker-focused: every history of attacker / entry point edits, asset removals and re-adds of removed objects
    for na, k in (((1, 5),) if quick else ((1, 6), (2, 5))):
        run.gen_replay('Gen_Model', 'Gen_Model_atk.cfg', MODEL_ADAPTER, args,
                       env={'VERIF_LANG': 'LTiny', 'VERIF_DEPTH': na + k, 'VERIF_NASSETS': na, 'VERIF_BUILDFIRST': 1, 'VERIF_BUILDOPS': 'atk',
                            'VERIF_MAXASSETS': na, 'VERIF_NODEF': 1, 'VERIF_MAXREJ': 1, 'VERIF_READD': 1},
                       timeout=2400, name='%d asset(s) then every history of %d attacker / entry point edits, removals and re-adds' % (na, k))
    n = 20000 if quick else 400000
    for lang in ('LTiny', 'LDup'):
        run.gen_replay('Gen_Model', 'Gen_Model_sim.cfg', MODEL_ADAPTER, args,
                       env={'VERIF_LANG': lang, 'VERIF_DEPTH': 12, 'VERIF_READD': 1}, simulate=10 ** 9, depth=13, workers=8,
                       timeout=240 if quick else 1800, max_cases=n, name='simulate depth 12 %s' % lang)

    # (C) code -> spec: random API drivers under the tracer, validated by TLC
    import random
    from harness import drivers, materialise
    from harness.tracer import TRACER
    TRACER.install()
    try:
        for lang in ('LTiny', 'LDup', 'LDef'):
            TRACER.reset()
            ctx = materialise.lang_ctx(langs[lang], key=lang)
            rng = random.Random(run.seed * 7919 + len(lang))
            for _ in range(400 if quick else 6000):
                drivers.drive_model(ctx, rng, steps=rng.choice([6, 10, 16]))
            run.trace_validate(langs[lang], TRACER.dump(), 'random driver ' + lang, lang_name=lang)
    finally:
        TRACER.uninstall()
        TRACER.reset()
    if not quick:
        repo_suite_traces(run)
        # larger design checks last (cut gracefully by the time budget of the thorough tier)
        run.mc('MC_Model', 'MC_Model_A.cfg', env={'VERIF_LANG': 'LTiny', 'VERIF_MAXH': 3, 'VERIF_READD': 1}, timeout=2400,
               name='assets+associations slice with re-adds', must_cover=('AddAssetOK', 'RemoveAssetOK', 'AddAssociation', 'RemoveFromAssoc'))
        run.mc('MC_Model', 'MC_Model_A.cfg', env={'VERIF_LANG': 'LTiny', 'VERIF_MAXH': 4}, timeout=2400,
               name='assets+associations slice, 4 handles', must_cover=('AddAssetOK', 'RemoveAssetOK', 'AddAssociation', 'RemoveFromAssoc'))


def repo_suite_traces(run):
    """The repository's own test-suite under the tracer plugin: every Model it builds yields one trace."""
    import json, os, subprocess, sys
    from harness import materialise, tlc
    out = os.path.join(tlc.scratch('suite'), 'traces.json')
    env = dict(os.environ, MALTOOLBOX_VERIF_TRACE='1', MALTOOLBOX_VERIF_TRACE_OUT=out,
               PYTHONPATH=os.path.dirname(os.path.dirname(os.path.abspath(__file__))))
    repo = os.environ.get('VERIF_REPO', '/repo')
    p = subprocess.run([sys.executable, '-m', 'pytest', '-q', '-p', 'no:cacheprovider', '-p', 'harness.pytest_tracer',
                        '-x', '--timeout=900', os.path.join(repo, 'tests')], cwd=os.getcwd(), env=env,
                       stdout=subprocess.PIPE, stderr=subprocess.STDOUT, text=True)
    if not os.path.exists(out):
        raise tlc.MachineryError('test-suite under tracer produced no traces:\n' + p.stdout[-1500:])
    d = json.load(open(out))
    if getattr(run, 'want_graph_traces', False):
        run.trace_validate_graph(d.get('gtraces', []), 'repository test-suite (attack graphs)', timeout=2400)
        return
    for key, spec in d['specs'].items():
        ts = [t for t in d['traces'] if t['lang'] == key]
        run.trace_validate(materialise.record_of(spec), ts, 'repository test-suite (%s)' % key, lang_name=key)
