"""C07 - saving and loading a model preserves it (JSON and YAML).
RoundTrip is a stutter on the abstract content of a ModelSM state (AbsNative: name, assets with id / name / type /
defenses / extras, associations with class / members / extras, attackers with id / name / entry points). Model states are
reached by ModelSM behaviours (accepted calls: explicit 0 / negative ids, id gaps after removals, non-default defenses,
extras, attackers with several entry points, duplicate-named association classes); each is written to .json / .yml /
.yaml, loaded, compared, saved again (same content), and loaded from permuted / shorthand hand-written variants; the
abstract names are concretised through several maps (YAML-significant, unicode, colon, quotes, newline ...)."""
LEVEL = 'model_checking'
A = 'harness.replay_roundtrip'


def run(run):
    quick = run.tier == 'quick'
    langs = run.libs()
    run.rule = ('cases = ModelSM behaviours (accepted calls only) whose final state is round-tripped through 3 formats x the '
                'configured name maps (+ permuted / rotated / shorthand variants of the file); non-trivial = final state with '
                '>= 2 assets or an association or an attacker; distinct by abstract final state')
    run.assumptions = ['the same language (classes factory) is used for loading', 'attacker ids are pairwise different']
    run.mc('MC_Model', 'MC_Model_B.cfg', env={'VERIF_LANG': 'LTiny'}, timeout=600,
           name='ModelSM attackers / defenses / extras slice (state space the round trips sample from)')
    maps_small = ['plain', 'yamlflow', 'idlike']
    maps_all = ['plain', 'colon', 'yamlbool', 'yamlfloat', 'yamlflow', 'unicode', 'null', 'tilde', 'blank', 'newline', 'quote', 'int', 'idlike', 'idlike0', 'nel']
    # a file is a behaviour: its entries are add_asset(id, name) calls in file order - repeated names (renamed by the
    # documented policy), ids in any order, id 0, negative ids; every such file of n entries, loaded and compared with ModelSM
    nf = 3 if quick else 4
    run.gen_replay('Gen_Model', 'Gen_Model_file.cfg', 'harness.replay_files', {'langs': langs, 'formats': ('native',)},
                   env={'VERIF_LANG': 'LTiny', 'VERIF_DEPTH': nf, 'VERIF_NASSETS': nf, 'VERIF_BUILDFIRST': 1, 'VERIF_MAXASSETS': nf,
                        'VERIF_NODEF': 1, 'VERIF_MAXREJ': 0}, timeout=1800,
                   name='every hand-written file of %d asset entries (names repeat, ids in any order) in the native json / yml' % nf)
    # ... and files that also state defense values and associations (entries in file order)
    run.gen_replay('Gen_Model', 'Gen_Model_file.cfg', 'harness.replay_files', {'langs': langs, 'formats': ('native',)},
                   env={'VERIF_LANG': 'LTiny', 'VERIF_DEPTH': 3 if quick else 4, 'VERIF_NASSETS': 2, 'VERIF_BUILDFIRST': 1, 'VERIF_MAXASSETS': 2,
                        'VERIF_MAXASSOCS': 2, 'VERIF_MAXMEMBERS': 2, 'VERIF_MAXREJ': 0}, timeout=1800,
                   name='every hand-written file of 2 asset entries followed by %d defense / association entries' % (1 if quick else 2))
    run.gen_replay('Gen_Model', 'Gen_Model_states.cfg', A, {'langs': langs, 'namemaps': maps_small},
                   env={'VERIF_LANG': 'LTiny', 'VERIF_DEPTH': 3 if quick else 4, 'VERIF_MAXREJ': 0}, timeout=1500,
                   name='every distinct ModelSM state reachable by <= 3-4 accepted calls on LTiny, 2 name maps')
    n = 500 if quick else 12000
    if quick:      # a seeded third of the name maps per run (always with the plain one)
        k = run.seed % 3
        maps_all = ['plain'] + [m for i, m in enumerate(maps_all[1:]) if i % 3 == k]
    for lang in ('LTiny', 'LDup', 'LDef', 'LSame'):
        run.gen_replay('Gen_Model', 'Gen_Model_sim.cfg', A, {'langs': langs, 'namemaps': maps_all},
                       env={'VERIF_LANG': lang, 'VERIF_DEPTH': 10, 'VERIF_MAXREJ': 0}, simulate=10 ** 9, depth=11,
                       max_cases=n, workers=8, timeout=400 if quick else 2400,
                       name='random behaviours of depth 10 on %s, %d name maps' % (lang, len(maps_all)))
