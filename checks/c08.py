"""C08 - viability / necessity labels are the greatest fixed point, in any node order.
Apriori!GFPV / GFPN; spec-level theorem GfpCorrect (solution, dominates every solution) checked by TLC for every
enumerated graph; every graph replayed in EVERY node order (n <= 4) through add_node + calculate_viability_and_necessity."""
LEVEL = 'model_checking'


def run(run):
    quick = run.tier == 'quick'
    run.rule = ('cases = labelled graphs enumerated by TLC (all kind assignments, all parent sets incl. cycles and '
                'self-loops, defense status in {0, 0.5, 1}, existence status, TTC distribution flags), each analysed in '
                'every permutation of the node list; non-trivial = graph with at least one edge; distinct by graph')
    run.assumptions = ['labels start at their defaults (analysis of an already analysed graph is not explored)',
                       'TTC kinds: none, Enabled / Disabled, one named distribution; arithmetic TTCs not explored']
    # (A) design level: the algorithm as a step machine reaches the greatest fixed point in every order
    run.mc('AprioriAlgo', 'AprioriAlgo.cfg', env={'VERIF_N': 2}, timeout=600, coverage=False,
           name='AprioriAlgo: every 2-node graph (5 kinds) x every node order x every propagation schedule')
    if not quick:
        run.mc('AprioriAlgo', 'AprioriAlgo.cfg', env={'VERIF_N': 3, 'VERIF_KINDS': 'oad'}, timeout=3000, coverage=False,
               name='AprioriAlgo: every 3-node graph over {or, and, defense} x every node order x every schedule')
    A = 'harness.replay_apriori'
    run.gen_replay('Gen_Apriori', 'Gen_Apriori.cfg', A, {'seed': run.seed}, env={'VERIF_N': 2}, name='all 2-node graphs, 5 kinds')
    run.gen_replay('Gen_Apriori', 'Gen_Apriori.cfg', A, {'seed': run.seed},
                   env={'VERIF_N': 3, 'VERIF_KINDS': 'oad', 'VERIF_SELFLOOPS': 0}, timeout=900,
                   name='all 3-node graphs over {or, and, defense} without self-loops')
    if quick:
        run.gen_replay('Gen_Apriori', 'Gen_Apriori.cfg', A, {'seed': run.seed},
                       env={'VERIF_N': 3, 'VERIF_KINDS': 'all', 'VERIF_SLICES': 40, 'VERIF_SLICE': run.seed % 40},
                       timeout=900, name='seeded 1/40 slice of all 3-node graphs (5 kinds, self-loops)')
    else:
        run.gen_replay('Gen_Apriori', 'Gen_Apriori.cfg', A, {'seed': run.seed},
                       env={'VERIF_N': 3, 'VERIF_KINDS': 'all'}, timeout=3000, name='all 3-node graphs (5 kinds, self-loops)')
        run.gen_replay('Gen_Apriori', 'Gen_Apriori.cfg', A, {'seed': run.seed},
                       env={'VERIF_N': 4, 'VERIF_KINDS': 'oad', 'VERIF_SLICES': 400, 'VERIF_SLICE': run.seed % 400},
                       timeout=3000, name='seeded 1/400 slice of 4-node graphs over {or, and, defense}')
