"""C08 - viability / necessity labels are the greatest fixed point, in any node order.
Apriori!GFPV / GFPN; spec-level theorem GfpCorrect (solution, dominates every solution) checked by TLC for every
enumerated graph; every graph replayed in EVERY node order (n <= 4) through add_node + calculate_viability_and_necessity;
Gen_AprioriBig: parametrised families of up to 800-900 nodes (solution + induction checked by TLC) in 7 stored orders."""
LEVEL = 'model_checking'


def run(run):
    quick = run.tier == 'quick'
    run.rule = ('cases = labelled graphs enumerated by TLC (all kind assignments, all parent sets incl. cycles and '
                'self-loops, defense status in {0, 0.5, 1}, existence status, TTC distribution flags), each analysed in '
                'every permutation of the node list (families of larger graphs: 7 stored orders); non-trivial = graph with at least one edge; distinct by graph')
    run.assumptions = ['labels start at their defaults (analysis of an already analysed graph is not explored)',
                       'TTC kinds: none, Enabled / Disabled, one named distribution; arithmetic TTCs not explored']
    # (A) design level: the algorithm as a step machine reaches the greatest fixed point in every order
    run.mc('AprioriAlgo', 'AprioriAlgo.cfg', env={'VERIF_N': 2}, timeout=600, coverage=False,
           name='AprioriAlgo: every 2-node graph (5 kinds) x every node order x every propagation schedule')
    if not quick:
        run.mc('AprioriAlgo', 'AprioriAlgo.cfg', env={'VERIF_N': 3, 'VERIF_KINDS': 'oad'}, timeout=3000, coverage=False,
               name='AprioriAlgo: every 3-node graph over {or, and, defense} x every node order x every schedule')
    A = 'harness.replay_apriori'
    run.gen_replay('Gen_Apriori', 'Gen_Apriori.cfg', A, {'seed': run.seed}, env={'VERIF_N': 2}, name='all 2-node graphs, 5 kinds')
    run.gen_replay('Gen_Apriori', 'Gen_Apriori.cfg', A, {'seed': run.seed},
                   env={'VERIF_N': 3, 'VERIF_KINDS': 'oad', 'VERIF_SELFLOOPS': 0}, timeout=900,
                   name='all 3-node graphs over {or, and, defense} without self-loops')
    # larger graphs: families of 12 / 120 / 800 nodes (chains, a cycle through the whole chain, ladders, skip links, fans
    # below two sources; every kind pattern, source kind and status, a distribution TTC in the middle); expected labels
    # = the same fixed-point iteration, checked by TLC to be a solution, equal to GFPV / GFPN on the short members and
    # equal to the closed form by induction on chains; replayed in 7 stored orders each
    run.gen_replay('Gen_AprioriBig', 'Gen_AprioriBig.cfg', A, {'seed': run.seed},
                   env={'VERIF_L1': 12, 'VERIF_L2': 120, 'VERIF_L3': 800}, timeout=900, workers=16,
                   name='graph families of 12 / 120 / 800 nodes (5 shapes x 4 kind patterns x 7 sources x 3 TTC positions)')
    if not quick:
        run.gen_replay('Gen_AprioriBig', 'Gen_AprioriBig.cfg', A, {'seed': run.seed + 1},
                       env={'VERIF_L1': 7, 'VERIF_L2': 333, 'VERIF_L3': 900}, timeout=1500, workers=16,
                       name='graph families of 7 / 333 / 900 nodes')
    if quick:
        run.gen_replay('Gen_Apriori', 'Gen_Apriori.cfg', A, {'seed': run.seed},
                       env={'VERIF_N': 3, 'VERIF_KINDS': 'all', 'VERIF_SLICES': 40, 'VERIF_SLICE': run.seed % 40},
                       timeout=900, name='seeded 1/40 slice of all 3-node graphs (5 kinds, self-loops)')
    else:
        run.gen_replay('Gen_Apriori', 'Gen_Apriori.cfg', A, {'seed': run.seed},
                       env={'VERIF_N': 3, 'VERIF_KINDS': 'all'}, timeout=3000, name='all 3-node graphs (5 kinds, self-loops)')
        run.gen_replay('Gen_Apriori', 'Gen_Apriori.cfg', A, {'seed': run.seed},
                       env={'VERIF_N': 4, 'VERIF_KINDS': 'oad', 'VERIF_SLICES': 400, 'VERIF_SLICE': run.seed % 400},
                       timeout=3000, name='seeded 1/400 slice of 4-node graphs over {or, and, defense}')
