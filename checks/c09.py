"""C09 - attack-graph structure and lookup indexes stay consistent in any history.
(A) GraphSM invariant Consistent (Mirror, RefsInside, IdIndexExact, NameIndexExact, IdsUnique, AttackerIndexExact) and
RegenerateIsFresh, exhaustive over the structural actions on a fixed small model; (B) every behaviour of bounded depth
and random long ones (model built by random ModelSM calls first) replayed into AttackGraph / Attacker / analysers with
the structural projection and index probes (incl. removed keys) compared after every step."""
from checks import gsm
LEVEL = 'model_checking'
KEEP = gsm.comp_in('nodes', 'ch', 'pa', 'index', 'atk', 'reached', 'entry', 'compBy', 'outcome', 'exists',
                   'regenerate_not_fresh', 'timeout')


def run(run):
    quick = run.tier == 'quick'
    run.rule = ('cases = GraphSM behaviours emitted by TLC; replayed step by step; non-trivial = at least two graph '
                'actions; distinct by action sequence')
    run.assumptions = ['full names of user-added nodes are unique (asset-less nodes are named by their id)']
    gsm.mc_slice(run, 'C09', 6, depth=7, must=('Generate', 'Regenerate', 'AddNode', 'RemoveNode', 'Prune', 'Analyse'))
    gsm.bfs_slice(run, 'C09', 5 if quick else 6, keep=KEEP)
    # structural edits on a copy and on a loaded graph (both slots probed after every step)
    gsm.bfs_slice(run, 'C09L', 5 if quick else 6, keep=KEEP)
    gsm.simulate(run, 'ALL', 14, 4000 if quick else 60000, keep=KEEP, timeout=300 if quick else 1800)
    gsm.simulate(run, 'ALL', 12, 2000 if quick else 30000, keep=KEEP, lang='LDef', timeout=300 if quick else 1800)
    gsm.driver_traces(run, 150 if quick else 2500)
    if not quick:
        from checks import c05
        run.want_graph_traces = True
        c05.repo_suite_traces(run)
        gsm.mc_slice(run, 'C09', 8, depth=9, must=('Generate', 'Regenerate', 'AddNode', 'RemoveNode', 'Prune', 'Analyse'))      # larger design check last
