"""C10 - saving and loading an attack graph preserves it.
SaveLoad in GraphSM is a stutter on the abstract content (handles renamed); the replay saves the real graph to JSON / YAML
and loads it with / without the model at arbitrary points of random behaviours (after analysis, pruning, compromise,
tags / extras mutations) and compares a TYPED projection (ids int, statuses float / bool, tags list of str, extras, TTC,
edges, attackers with entry and reached sets; asset binding when the model is supplied)."""
from checks import gsm
LEVEL = 'model_checking'


def KEEP(d):
    return d.get('action') == 'SaveLoad'


def run(run):
    quick = run.tier == 'quick'
    run.rule = ('cases = GraphSM behaviours containing SaveLoad(fmt, withModel) in {json, yml} x {model, no model}; '
                'non-trivial = SaveLoad preceded by at least two graph actions; distinct by action sequence')
    run.assumptions = []
    gsm.mc_slice(run, 'C10', 6, depth=7, must=('SaveLoad',))
    gsm.bfs_slice(run, 'C10', 4 if quick else 5, keep=KEEP)
    gsm.bfs_slice(run, 'C10R', 5 if quick else 6, keep=KEEP)      # undo / remove_node, then save and load
    gsm.bfs_slice(run, 'C10A', 5 if quick else 6, keep=KEEP)      # nodes without an asset; a loaded graph saved and loaded again
    # two attackers sharing a name (once an open finding, repaired by 30f4fbb): exercised on every run
    gsm.bfs_slice(run, 'C10F', 5, keep=KEEP, env={'VERIF_GMAXATK': 3})      # up to three attackers: "ga", "ga:2", "ga" (id 2)
    gsm.simulate(run, 'C10', 9, 3000 if quick else 40000, keep=KEEP, free=False, timeout=300 if quick else 1800)
    gsm.simulate(run, 'ALL', 12, 2000 if quick else 40000, keep=KEEP, lang='LDef', timeout=300 if quick else 1800)
    gsm.simulate(run, 'ALL', 12, 2000 if quick else 40000, keep=KEEP, timeout=300 if quick else 1800)
    # larger, model-less graphs: the Gen_AprioriBig families, analysed, written (.json; .yml for the 12-node members) and loaded
    # without a model: nodes (id, type, labels as the specification computes them, statuses, TTC) and edges par[c] -> c
    run.gen_replay('Gen_AprioriBig', 'Gen_AprioriBig.cfg', 'harness.replay_persist_big', {'seed': run.seed, 'mode': 'file'},
                   env={'VERIF_L1': 12, 'VERIF_L2': 120 if quick else 240, 'VERIF_L3': 0 if quick else 800}, timeout=900, workers=16,
                   name='save / load of analysed graph families of 12 / %d nodes, 2 arrival orders each' % (120 if quick else 240))
    if not quick:
        gsm.mc_slice(run, 'C10', 6, depth=8, must=('SaveLoad',))          # larger design check last
