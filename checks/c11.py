"""C11 - attackers and nodes always agree on what is compromised.
CompromiseMirror (inside Consistent), Idempotent, RemoveAttackerClears as invariants / action properties of GraphSM,
exhaustive in the compromise slice; behaviours replayed with reached / entry / compromised_by compared after every step;
attach_attackers against model entry points incl. non-existent steps."""
from checks import gsm
LEVEL = 'model_checking'
KEEP = gsm.comp_in('reached', 'entry', 'compBy', 'atk', 'outcome', 'timeout')


def run(run):
    quick = run.tier == 'quick'
    run.rule = ('cases = GraphSM behaviours over compromise / undo (from either side), attach, add / remove attacker, '
                'remove node; non-trivial = at least two graph actions; distinct by action sequence')
    # unbounded in history length: IndInv of the typed extract AtkRel is an inductive invariant (Apalache)
    run.apalache('AtkRel', [('Init', 'IndInv', 0), ('IndInit', 'IndInv', 1)])
    gsm.mc_slice(run, 'C11M', 7, must=('Compromise', 'Undo', 'RemoveGAttacker', 'AttachAttackers', 'AddGAttacker'))
    gsm.bfs_slice(run, 'C11', 5 if quick else 6, keep=KEEP)
    gsm.simulate(run, 'C11', 12, 3000 if quick else 50000, keep=KEEP, free=False, timeout=300 if quick else 1800)
    gsm.simulate(run, 'C11', 14, 1500 if quick else 30000, keep=KEEP, timeout=300 if quick else 1800)
    gsm.driver_traces(run, 150 if quick else 2500)
    if not quick:
        from checks import c05
        run.want_graph_traces = True
        c05.repo_suite_traces(run)
        gsm.mc_slice(run, 'C11M', 8, must=('Compromise', 'Undo', 'RemoveGAttacker', 'AttachAttackers', 'AddGAttacker'))      # larger design check last
