"""C12 - attack-surface queries follow their definition; incremental = recomputed.
Apriori!Traversable / Surface and the defense-surface definitions; spec-level theorem SurfaceIncr = Surface(R2) checked by
TLC for every enumerated (graph, labels, R <= R2); every case replayed: is_node_traversable_by_attacker for every node,
get_attack_surface (as a set, without duplicates), update_attack_surface_add_nodes after compromising R2 \\ R,
get_defense_surface, get_enabled_defenses, and the serialised graph before / after every query."""
LEVEL = 'model_checking'


def run(run):
    quick = run.tier == 'quick'
    run.rule = ('cases = (graph over {or, and, defense} with parent sets incl. cycles / self-loops, arbitrary V / N labels, '
                'defense statuses and suppress tags, reached sets R <= R2) enumerated by TLC; a second attacker that has '
                'compromised every node is always present; non-trivial = Surface(R2) non-empty; distinct by case')
    A = 'harness.replay_query'
    run.gen_replay('Gen_Query', 'Gen_Query.cfg', A, {}, env={'VERIF_N': 2}, timeout=900, name='all 2-node cases')
    sl = 400 if quick else 12
    run.gen_replay('Gen_Query', 'Gen_Query.cfg', A, {}, env={'VERIF_N': 3, 'VERIF_SLICES': sl, 'VERIF_SLICE': run.seed % sl, 'VERIF_DEFVARY': 0},
                   timeout=3000, name='seeded 1/%d slice of all 3-node cases' % sl)
    # larger graphs: the Gen_AprioriBig families (defense sources) with the labels of the analysis, an attacker that has reached
    # the sources and the first third of the steps, then four more; IncrBig (incremental = recomputed) checked by TLC per member
    run.gen_replay('Gen_QueryBig', 'Gen_QueryBig.cfg', A, {}, env={'VERIF_L1': 12, 'VERIF_L2': 120 if quick else 240, 'VERIF_L3': 0},
                   timeout=900, workers=16, name='graph families of 12 / %d nodes, reached prefix then four more steps' % (120 if quick else 240))
