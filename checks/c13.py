"""C13 - pruning removes exactly the non-viable or unnecessary attack steps.
PruneExact as an action property of GraphSM (exhaustive in the prune slice, arbitrary labels via Analyse and Touch) and
Consistent in the successor; behaviours replayed: node set, labels of the survivors, structure and indexes after prune.
Larger graphs: the families of Gen_AprioriBig, pruned after the analysis, against Gen_AprioriBig!BigPrunable."""
from checks import gsm
LEVEL = 'model_checking'
KEEP = lambda d: d.get('action') == 'Prune'


def run(run):
    quick = run.tier == 'quick'
    run.rule = ('cases = GraphSM behaviours ending in or containing Prune after label-changing actions (Analyse, Touch of '
                'labels) on graphs with user-added nodes and edges; non-trivial = behaviour in which Prune removes at '
                'least one node or two graph actions precede it; distinct by action sequence')
    gsm.mc_slice(run, 'C13', 6, depth=6, must=('Prune', 'Analyse', 'Touch'))
    gsm.bfs_slice(run, 'C13', 4 if quick else 5, keep=KEEP)
    # pruning a graph that was saved and loaded (node order of the file), and after an attacker gave up an entry point
    gsm.bfs_slice(run, 'C13L', 5 if quick else 6, keep=KEEP, env={'VERIF_TOUCH': 'label'})
    gsm.bfs_slice(run, 'C13D', 5 if quick else 6, keep=KEEP)      # a viable, unnecessary step that carries a TTC distribution is pruned, too
    gsm.simulate(run, 'C13', 12, 3000 if quick else 50000, keep=KEEP, lang='LDef', timeout=300 if quick else 1800)
    gsm.simulate(run, 'ALL', 14, 2000 if quick else 30000, keep=KEEP, timeout=300 if quick else 1800)
    gsm.simulate(run, 'C13', 10, 1500 if quick else 20000, keep=KEEP, lang='LSet', timeout=300 if quick else 1800)
    # larger graphs: the Gen_AprioriBig families (12 / 120 nodes; thorough 240 and the 800-node chains) analysed and pruned;
    # expected survivors = all steps but Gen_AprioriBig!BigPrunable, with order, ids, labels, remaining edges and lookups
    run.gen_replay('Gen_AprioriBig', 'Gen_AprioriBig.cfg', 'harness.replay_prune_big', {'seed': run.seed},
                   env={'VERIF_L1': 12, 'VERIF_L2': 120 if quick else 240, 'VERIF_L3': 0 if quick else 800}, timeout=900, workers=16,
                   name='prune after analysis on graph families of 12 / %d nodes, 3 stored orders each' % (120 if quick else 240))
    if not quick:
        gsm.mc_slice(run, 'C13', 7, depth=7, must=('Prune', 'Analyse', 'Touch'))          # larger design check last
