"""C14 - a deep copy of an attack graph is equal and fully independent.
CopyEqual, SlotsIndependent, SlotsDisjoint on the two-slot GraphSM; replay takes copy.deepcopy at every reachable point
of the slice, checks serialisation / counters / lookups / object identity (no node, attacker, child / parent list, tags,
extras, TTC, compromised-by shared; model and language shared), then mutates either graph and re-projects both."""
from checks import gsm
LEVEL = 'model_checking'


def KEEP(d):
    c = d.get('component') or ''
    return c.startswith('copy_') or c.endswith('_other_slot') or d.get('action') == 'DeepCopy'


def run(run):
    quick = run.tier == 'quick'
    run.rule = ('cases = GraphSM behaviours containing DeepCopy followed by mutations (remove node, compromise, touch tags / '
                'extras / TTC / labels, add node, remove attacker) of either slot; non-trivial = at least one action '
                'after the copy; distinct by action sequence')
    gsm.mc_slice(run, 'C14', 6, timeout=1800, depth=5, must=('DeepCopy', 'Touch'))
    gsm.bfs_slice(run, 'C14', 4 if quick else 5, keep=KEEP)
    gsm.simulate(run, 'C14', 9, 3000 if quick else 50000, keep=KEEP, free=False, timeout=300 if quick else 1800)
    gsm.simulate(run, 'C14', 12, 1500 if quick else 30000, keep=KEEP, timeout=300 if quick else 1800)
    # larger, model-less graphs: the Gen_AprioriBig families, analysed and deep-copied: same graph as the case, no shared node
    # object, own lookups; pruning / relabelling the copy leaves the original untouched and the other way round
    run.gen_replay('Gen_AprioriBig', 'Gen_AprioriBig.cfg', 'harness.replay_persist_big', {'seed': run.seed, 'mode': 'copy'},
                   env={'VERIF_L1': 12, 'VERIF_L2': 120 if quick else 240, 'VERIF_L3': 0 if quick else 800}, timeout=900, workers=16,
                   name='deep copy of analysed graph families of 12 / %d nodes, 2 arrival orders each' % (120 if quick else 240))
    if not quick:
        gsm.mc_slice(run, 'C14', 8, timeout=1800, depth=7, must=('DeepCopy', 'Touch'))          # larger design check last
