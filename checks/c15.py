"""C15 - language graph mirrors the language and over-approximates every attack graph.
Eval_LangGraph: for every library language the specification states the assets, super / sub links, closures, subtype
matrix, per-asset associations, association lookup by fields and types for EVERY combination in both orientations,
the step-to-step links (children of the source = parents of the target), and five ill-formed variants that must be
reported as errors. Prediction clause: every edge of every attack graph generated for the C01 (language, model) pairs
must be covered by a language-graph link to a step owned by the target's type or an ancestor."""
from checks import graphgen
LEVEL = 'model_checking'


def run(run):
    quick = run.tier == 'quick'
    run.rule = ('cases = (i) one language-graph inventory per library language with all lookup combinations and five broken '
                'variants, (ii) the (language, model) pairs of C01 for the prediction clause; non-trivial = model with at '
                'least one expected edge / every inventory; distinct by case')
    run.gen_replay('Eval_LangGraph', 'Eval_LangGraph.cfg', 'harness.replay_langgraph', {}, workers=1,
                   name='language-graph inventory, lookups, links and error variants of every library language')
    n = 200 if quick else 6000
    run.gen_replay('LangGen', 'LangGen.cfg', 'harness.replay_langgraph', {'view_key': 'lgexp'}, env={'VERIF_DEPTH': 30, 'VERIF_VIEWS': 1},
                   simulate=10 ** 9, depth=30, max_cases=n, workers=12, timeout=300 if quick else 3000,
                   name='language-graph inventory of %d random well-formed languages (LangGen)' % n)
    graphgen.run_plan(run, graphgen.is_c15, quick)
