"""C16 - graph generation is deterministic and does not disturb its inputs.
In the specification Generate is a function of (language, model) and leaves the ModelSM variables and the language
unchanged; the (language, model) pairs come from the C01 generator (TLC), the configurations (process boundaries, hash
seeds, API vs file-based wrapper, json vs yml) are a harness axis. Level: exploration."""
LEVEL = 'exploration'


def run(run):
    quick = run.tier == 'quick'
    langs = run.libs()
    run.rule = ('cases = (language, model) pairs emitted by TLC (Gen_Graph) x {same process twice, fresh processes with '
                'PYTHONHASHSEED in {0, 1, 2, seed}} x {direct API from .mar + json, create_attack_graph from .mar + yml, from .mar + json, from .mal (printed by Tok) + json}; '
                'oracle: textual equality of json.dumps(graph._to_dict()); non-trivial = pair with at least one expected edge')
    from harness import common
    toks = common.dump_lang_tokens()
    seeds = (0, 1, 2, run.seed + 3)
    # (language, model depth, cases emitted by TLC, minimum number of expected edges for a case to be executed)
    plan = [('LTiny', 4, 6, 5), ('LSet', 4, 6, 5), ('LTrans', 4, 6, 6), ('LDef', 3, 5, 5), ('LVar', 3, 5, 5), ('LDup', 3, 5, 3), ('LInh', 3, 5, 4)]
    for lang, depth, n, me in plan:
        run.gen_replay('Gen_Graph', 'Gen_Graph.cfg', 'harness.replay_determinism', {'langs': langs, 'hashseeds': seeds, 'toks': toks, 'min_edges': me},
                       env={'VERIF_LANG': lang, 'VERIF_DEPTH': depth, 'VERIF_MINASSETS': 2, 'VERIF_MINEDGES': me}, timeout=900, workers=4,
                       max_cases=n if quick else n * 12, name='%s: first %d models with >= %d expected edges' % (lang, n if quick else n * 12, me))
