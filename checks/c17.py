"""C17 - malformed MAL source is rejected, never half-compiled.
Gen_Mut: every single-token mutation (delete, insert one token of each kind of a pool, truncate, identifier replaced by a
reserved word) at every position of the token sequence of a valid program - in the root file or in an included file.
As the property prescribes, the repository's own ANTLR lexer / parser with a counting error listener classifies each
mutated text; when it is erroneous, MalCompiler.compile must raise. The specification's recogniser of mal.g4
(spec/Syntax.tla) is cross-checked against ANTLR on every case (disagreements are counted as oracle_disagreement and not
judged; the unmutated program must be accepted by both). Level: exploration."""
LEVEL = 'exploration'


def run(run):
    quick = run.tier == 'quick'
    run.rule = ('cases = single-token mutations of valid programs enumerated by TLC; non-trivial = mutation that ANTLR '
                'classifies as erroneous; distinct by (program, file, mutation)')
    run.assumptions = ['token-level mutations only (lexer-level errors are outside the quantifier)',
                       "trailing input that cannot begin a declaration is tolerated by the grammar's start rule (no EOF)"]
    A = 'harness.replay_mut'
    plan = [('LTiny', 'single', 1, 1), ('LDef', 'star', 2, 1), ('LDef', 'chain', 3, 2), ('LTiny', 'samename', 5, 1)] if quick else \
           [('LTiny', 'single', 1, 1), ('LDef', 'single', 1, 1), ('LDef', 'star', 2, 1), ('LDef', 'chain', 3, 1), ('LSet', 'middle', 2, 1),
            ('LInh', 'single', 1, 1), ('LDup', 'star', 3, 1), ('LVar', 'repeat', 2, 1), ('LTrans', 'subdir', 2, 1), ('LSet', 'samename', 5, 1), ('LSet', 'samename', 3, 1)]
    for lang, layout, fileno, slices in plan:
        run.gen_replay('Gen_Mut', 'Gen_Mut.cfg', A, {}, env={'VERIF_LANG': lang, 'VERIF_LAYOUT': layout, 'VERIF_FILE': fileno,
                                                             'VERIF_SLICES': slices, 'VERIF_SLICE': run.seed % slices},
                       timeout=1800, name='all mutations of %s (%s layout, file %d)%s' % (lang, layout, fileno, '' if slices == 1 else ' 1/%d' % slices))
    run.extra['oracle_disagreements'] = run.features.get('oracle_disagreement', 0)
    if run.features.get('oracle_disagreement', 0):
        print('note: %d case(s) where the TLA+ recogniser and ANTLR disagree (not judged)' % run.features['oracle_disagreement'])
