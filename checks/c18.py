"""C18 - legacy model loaders agree with the native loader.
LoadLegacy(kind) preserves AbsLegacy (spec/ModelSM.tla: assets with ids / names / types / defense values, pairwise links,
attacker entry steps). The final states of TLC-generated ModelSM behaviours are emitted in the 0.0.39 json / yaml layout
and as a securiCAD .sCAD archive by the harness's inverse translations, loaded by the real legacy loaders, and
Model._to_dict() of the result is compared with the abstraction TLC printed."""
import json
import os
LEVEL = 'model_checking'
A = 'harness.replay_legacy'


def selfcheck(run):
    """the inverse emitters are trusted glue: self-check them on the .sCAD fixture the repository ships (load, abstract,
    emit, load again: same abstraction)"""
    from harness import materialise, tlc
    from harness.replay_legacy import abs_of_dict, emit_scad
    from maltoolbox.language import LanguageGraph, LanguageClassesFactory
    from maltoolbox.translators import securicad
    repo = os.environ.get('VERIF_REPO', '/repo')
    lg = LanguageGraph.from_mar_archive(os.path.join(repo, 'tests/testdata/org.mal-lang.coreLang-1.0.0.mar'))
    f = LanguageClassesFactory(lg)
    m = securicad.load_model_from_scad_archive(os.path.join(repo, 'tests/testdata/example_model.sCAD'), lg, f)
    L = materialise.record_of(lg._lang_spec)
    assets, links, entry, atk = abs_of_dict(m._to_dict(), L)
    small = {}
    ab = {'assets': [], 'links': [], 'atk': [], 'entry': []}
    for k, i in enumerate(sorted(assets)):
        small[i] = k + 1          # the fixture uses 64-bit ids; any injective renaming denotes the same model
    for i, a in assets.items():
        full = {x: 0 for x in []}
        ab['assets'].append({'id': small[i], 'name': a['name'], 'type': a['type'], 'def': a['def']})
    for (c, l, r) in links:
        ab['links'].append({'cls': c, 'l': small[l], 'r': small[r]})
    for i, (t, nm) in enumerate(sorted(atk.items())):
        small[t] = 1000 + i
        ab['atk'].append({'id': small[t], 'name': nm})
    for (t, a, s) in entry:
        ab['entry'].append({'atk': small[t], 'a': small[a], 's': s})
    p = os.path.join(tlc.scratch('selfcheck'), 'again.sCAD')
    with open(p, 'wb') as fh:
        fh.write(emit_scad(L, ab))
    m2 = securicad.load_model_from_scad_archive(p, lg, f)
    a2, l2, e2, t2 = abs_of_dict(m2._to_dict(), L)
    ok = ({(c, small[l], small[r]) for (c, l, r) in links} == l2 and
          {(small[t], small[a], s) for (t, a, s) in entry} == e2 and
          {small[i]: {'name': a['name'], 'type': a['type'], 'def': a['def']} for i, a in assets.items()} == a2)
    if not ok:
        # The emitter is part of /verif and unchanged between runs: when the round trip of the SHIPPED archive through the
        # real loader stops being the identity, the loader changed - a divergence of the tree under test (the shipped
        # archive, abstracted and written again by the inverse translation, no longer loads to the same model).
        run.divs.append({'kind': 'divergence', 'action': 'LoadLegacy', 'component': 'shipped_scad_fixture_round_trip',
                         'features': ['scad'], 'detail': {'links_equal': {(c, small[l], small[r]) for (c, l, r) in links} == l2,
                                                          'entry_equal': {(small[t], small[a], s) for (t, a, s) in entry} == e2},
                         'adapter': 'checks.c18'})
    run.phases.append({'phase': 'selfcheck', 'name': 'emit_scad round trip on tests/testdata/example_model.sCAD',
                       'assets': len(assets), 'links': len(links), 'entry_steps': len(entry)})


def replay_divergence(d):
    """run.py replay for the fixture round trip: run it again on the current tree"""
    class R:
        divs = []
        phases = []
    r = R()
    selfcheck(r)
    return bool(r.divs), {'divergences': [{k: v for k, v in x.items() if k in ('component', 'detail')} for x in r.divs]}


def run(run):
    quick = run.tier == 'quick'
    langs = run.libs()
    run.rule = ('cases = final states of ModelSM behaviours (accepted calls only) abstracted by AbsLegacy and emitted in 3 '
                'legacy encodings (0.0.39 json, 0.0.39 yaml, .sCAD); non-trivial = state with >= 2 assets, a link or an '
                'entry step; distinct by abstraction')
    run.assumptions = ['the inverse emitters (native -> 0.0.39 layout, native -> .sCAD) are trusted glue, self-checked on the shipped fixture',
                       '.sCAD does not carry attacker names']
    selfcheck(run)
    # a file is a behaviour: its entries are add_asset(id, name) calls in file order - repeated names (renamed by the
    # documented policy), ids in any order, id 0, negative ids; every such file of n entries, loaded and compared with ModelSM
    nf = 3 if quick else 4
    run.gen_replay('Gen_Model', 'Gen_Model_file.cfg', 'harness.replay_files', {'langs': langs, 'formats': ('legacy',)},
                   env={'VERIF_LANG': 'LTiny', 'VERIF_DEPTH': nf, 'VERIF_NASSETS': nf, 'VERIF_BUILDFIRST': 1, 'VERIF_MAXASSETS': nf,
                        'VERIF_NODEF': 1, 'VERIF_MAXREJ': 0}, timeout=1800,
                   name='every hand-written file of %d asset entries (names repeat, ids in any order) in the legacy layouts' % nf)
    run.gen_replay('Gen_Model', 'Gen_Model_states.cfg', A, {'langs': langs},
                   env={'VERIF_LANG': 'LTiny', 'VERIF_DEPTH': 3 if quick else 4, 'VERIF_MAXREJ': 0}, timeout=1500,
                   name='every distinct ModelSM state reachable by <= 3-4 accepted calls on LTiny')
    for lang in ('LSame', 'LDup', 'LInh'):      # LInh: members several inheritance levels below the declared end
        run.gen_replay('Gen_Graph', 'Gen_Graph.cfg', A, {'langs': langs}, env={'VERIF_LANG': lang, 'VERIF_DEPTH': 8, 'VERIF_MAXASSETS': 4,
                                                                                 'VERIF_MAXASSOCS': 4}, simulate=10 ** 9, depth=9,
                       max_cases=4000 if quick else 60000, workers=8, timeout=300 if quick else 1800,
                       name='random model constructions of depth 8 on %s (every prefix is a case)' % lang)
    n = 1500 if quick else 25000
    for lang in ('LDup', 'LDef', 'LSame'):
        run.gen_replay('Gen_Model', 'Gen_Model_sim.cfg', A, {'langs': langs},
                       env={'VERIF_LANG': lang, 'VERIF_DEPTH': 10, 'VERIF_MAXREJ': 0}, simulate=10 ** 9, depth=11,
                       max_cases=n, workers=8, timeout=400 if quick else 2400,
                       name='random behaviours of depth 10 on %s' % lang)
