"""C19 - Neo4j export is isomorphic to what is exported, and import inverts it.
ModelSM!NeoNodes / NeoRels state what ingesting a model must send (one node per asset; per linked pair one relationship
per direction labelled with the field containing the source asset); the spec-level theorem NeoRoundTrip (reading back
every pair of opposite relationships whose labels are the two fields of an association gives PairLinks) is checked by TLC
on every explored state. The replay ingests into a recording stand-in for py2neo.Graph and reads the model back from it;
attack graphs of the C01 (language, model) pairs are ingested and compared node by node / edge by edge; the graph families
of Gen_AprioriBig (12 to 240 nodes, ids permuted by the arrival order) are ingested after the analysis."""
LEVEL = 'model_checking'


def run(run):
    quick = run.tier == 'quick'
    langs = run.libs()
    run.rule = ('cases = (i) final states of ModelSM behaviours (accepted calls) with NeoNodes / NeoRels from TLC, ingested and '
                'read back; (ii) (language, model) pairs of the C01 generator, ingested as attack graphs; non-trivial = state '
                'with at least one link / graph with at least one edge; distinct by abstraction; (iii) model-less graph families of '
                'Gen_AprioriBig in four arrival orders')
    run.assumptions = ["the stand-in's evaluation of the two fixed Cypher patterns (relationship uniqueness included) is trusted",
                       'defense values and attackers are not part of the model export']
    A = 'harness.replay_neo'
    run.gen_replay('Gen_Model', 'Gen_Model_states.cfg', A, {'langs': langs},
                   env={'VERIF_LANG': 'LTiny', 'VERIF_DEPTH': 3 if quick else 4, 'VERIF_MAXREJ': 0}, timeout=1500,
                   name='every distinct ModelSM state reachable by <= 3-4 accepted calls on LTiny')
    n = 1500 if quick else 25000
    for lang in ('LDup', 'LOne', 'LSame'):
        run.gen_replay('Gen_Model', 'Gen_Model_sim.cfg', A, {'langs': langs},
                       env={'VERIF_LANG': lang, 'VERIF_DEPTH': 9, 'VERIF_MAXREJ': 0}, simulate=10 ** 9, depth=10,
                       max_cases=n, workers=8, timeout=400 if quick else 2400, name='random behaviours of depth 9 on %s' % lang)
    # models enumerated directly (accepted calls only, random walks): several links between several assets
    for lang in ('LSame', 'LDup', 'LInh'):      # LInh: members several inheritance levels below the declared end
        run.gen_replay('Gen_Graph', 'Gen_Graph.cfg', A, {'langs': langs}, env={'VERIF_LANG': lang, 'VERIF_DEPTH': 8, 'VERIF_MAXASSETS': 4,
                                                                                 'VERIF_MAXASSOCS': 4}, simulate=10 ** 9, depth=9,
                       max_cases=4000 if quick else 60000, workers=8, timeout=300 if quick else 1800,
                       name='random model constructions of depth 8 on %s (every prefix is a case)' % lang)
    for lang, depth in (('LDef', 3), ('LTiny', 3), ('LOne', 3)) if quick else (('LDef', 4), ('LTiny', 5), ('LSet', 5), ('LTrans', 5), ('LInh', 3), ('LOne', 4)):
        run.gen_replay('Gen_Graph', 'Gen_Graph.cfg', 'harness.replay_neo_graph', {'langs': langs},
                       env={'VERIF_LANG': lang, 'VERIF_DEPTH': depth}, timeout=1500, name='attack graphs of %s models to depth %d' % (lang, depth))
    # larger, model-less attack graphs: the Gen_AprioriBig families (chains, a whole-chain cycle, ladders, skip links, fans;
    # up to two parents per step) built through add_node in four arrival orders each, so that node ids (assigned on arrival)
    # of one, two and three digits are spread over the structure; analysed, ingested, compared node by node (labels as the
    # specification computes them) and relationship by relationship (exactly one per edge)
    run.gen_replay('Gen_AprioriBig', 'Gen_AprioriBig.cfg', 'harness.replay_neo_big', {'seed': run.seed},
                   env={'VERIF_L1': 12, 'VERIF_L2': 120 if quick else 240, 'VERIF_L3': 0}, timeout=900, workers=16,
                   name='model-less attack graph families of 12 / %d nodes, 4 arrival orders each' % (120 if quick else 240))
