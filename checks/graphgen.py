"""Shared by C01 / C02: (language, model) pairs from Gen_Graph replayed through AttackGraph generation."""
C01_COMPONENTS = {'edges', 'parents_converse', 'timeout', 'recursion', 'exception', 'child_outside_graph',
                  'parent_outside_graph', 'valid_model_rejected'}
OTHER = {'lg_prediction', 'language_graph_raises'}


def is_c01(d):
    return d.get('component') in C01_COMPONENTS


def is_c02(d):
    return d.get('component') not in C01_COMPONENTS and d.get('component') not in OTHER


def is_c15(d):
    return d.get('component') in ('lg_prediction', 'language_graph_raises')


QUICK_PLAN = [('LSet', 5, {}), ('LTrans', 4, {}), ('LVar', 3, {}), ('LDef', 3, {}), ('LInh', 3, {}), ('LDup', 3, {}),
              ('LTiny', 4, {}), ('LSame', 3, {}), ('LOne', 3, {})]
THOROUGH_PLAN = [('LSet', 6, {}), ('LTrans', 6, {'VERIF_MAXASSOCS': 4}), ('LVar', 6, {}), ('LDef', 5, {}),
                 ('LInh', 4, {}), ('LDup', 5, {}), ('LTiny', 6, {'VERIF_MAXASSOCS': 4}), ('LSame', 5, {}), ('LOne', 5, {})]


def run_plan(run, keep, quick):
    langs = run.libs()
    for lang, depth, extra in (QUICK_PLAN if quick else THOROUGH_PLAN):
        env = {'VERIF_LANG': lang, 'VERIF_DEPTH': depth}
        env.update(extra)
        run.gen_replay('Gen_Graph', 'Gen_Graph.cfg', 'harness.replay_graph', {'langs': langs}, env=env,
                       timeout=600 if quick else 3000, name='models of %s to depth %d' % (lang, depth), keep=keep)
    # random well-formed languages from the language construction machine, each with a random model
    n = 150 if quick else 6000
    run.gen_replay('LangGen', 'LangGen.cfg', 'harness.replay_graph', {'langs': {}}, env={'VERIF_DEPTH': 30},
                   simulate=10 ** 9, depth=30, max_cases=n, workers=12, timeout=300 if quick else 3000,
                   name='LangGen: %d random well-formed languages (<= 4 types with inheritance, <= 5 associations incl. '
                        'shared names, variables, every step kind, grown expressions) x random models' % n, keep=keep)
