"""Shared by C09 / C10 / C11 / C13 / C14: GraphSM slices (exhaustive MC + BFS behaviours + simulation) replayed."""


def mc_slice(run, slice_name, maxgh, maxnodes=5, timeout=900, must=(), depth=100):
    run.mc('MC_Graph', 'MC_Graph.cfg', env={'VERIF_LANG': 'LTiny', 'VERIF_SLICE': slice_name, 'VERIF_MAXGH': maxgh,
                                           'VERIF_MAXNODES': maxnodes, 'VERIF_DEPTH': depth}, timeout=timeout,
           name='GraphSM slice %s, fixed 2-asset model, exhaustive' % slice_name, must_cover=must)


def bfs_slice(run, slice_name, depth, keep=None, timeout=1200, maxnodes=5, env=None):
    run.gen_replay('Gen_GraphSM', 'Gen_GraphSM.cfg', 'harness.replay_gsm', {'langs': run.libs()},
                   env=dict({'VERIF_LANG': 'LTiny', 'VERIF_SLICE': slice_name, 'VERIF_DEPTH': depth, 'VERIF_MAXNODES': maxnodes}, **(env or {})),
                   timeout=timeout, name='GraphSM slice %s: every behaviour of depth %d (fixed model)%s' % (slice_name, depth, ' ' + str(env) if env else ''),
                   keep=keep)


def simulate(run, slice_name, depth, n, keep=None, lang='LTiny', free=True, timeout=600, ming=3):
    run.gen_replay('Gen_GraphSM', 'Gen_GraphSM.cfg', 'harness.replay_gsm', {'langs': run.libs()},
                   env={'VERIF_LANG': lang, 'VERIF_SLICE': slice_name, 'VERIF_DEPTH': depth, 'VERIF_FREE': 1 if free else 0,
                        'VERIF_MAXNODES': 12 if free else 6, 'VERIF_MING': ming},
                   simulate=10 ** 9, depth=depth + 1, max_cases=n, timeout=timeout, workers=8,
                   name='GraphSM %s: random behaviours of depth %d on %s (%s model)' % (
                       slice_name, depth, lang, 'built by random ModelSM calls' if free else 'fixed'), keep=keep)


STRUCT = {'nodes', 'ch', 'pa', 'index', 'atk', 'reached', 'entry', 'compBy', 'outcome', 'exists', 'regenerate_not_fresh',
          'timeout'}


def comp_in(*names):
    s = set(names)

    def f(d):
        c = (d.get('component') or '').replace('_other_slot', '')
        return c in s or any(c.startswith(n) for n in s if n.endswith('_'))
    return f


def driver_traces(run, n, langs=('LTiny', 'LDef', 'LTrans')):
    """(C) code -> spec: random API histories on real attack graphs under the graph tracer, validated by TLC."""
    import random
    from harness import drivers, materialise
    from harness.gtracer import GTRACER
    L = run.libs()
    GTRACER.install()
    try:
        for lang in langs:
            GTRACER.reset()
            ctx = materialise.lang_ctx(L[lang], key=lang)
            rng = random.Random(run.seed * 104729 + len(lang))
            for _ in range(n):
                drivers.drive_graph(ctx, rng, steps=rng.choice([8, 14, 20]))
            run.trace_validate_graph(GTRACER.dump(), 'random graph driver ' + lang)
    finally:
        GTRACER.uninstall()
        GTRACER.reset()
