"""Check scaffolding: phases (A) TLC exhaustive, (B) TLC generation -> replay into the code,
(C) recorded traces -> TLC validation; classification against known_findings.json; evidence; exit codes."""
import hashlib
import json
import os
import shutil
import sys
import time

from harness import tlc, replay, common

VERIF = os.path.dirname(os.path.dirname(os.path.abspath(__file__)))
_ALT = os.environ.get('VERIF_REPO', '/repo').rstrip('/') != '/repo'
# evidence / replays of a run against another tree (seeded change, reverted fix) never touch the committed evidence
EVID = os.path.join(VERIF, '.work', 'evidence-alt') if _ALT else os.path.join(VERIF, 'evidence')
REPLAYS = os.path.join(VERIF, '.work', 'replays-alt') if _ALT else os.path.join(VERIF, 'replays')
FINDINGS = os.path.join(VERIF, 'known_findings.json')


def load_findings():
    if not os.path.exists(FINDINGS):
        return {'fixed': [], 'open': []}
    with open(FINDINGS) as f:
        return json.load(f)


def matches(sig, d):
    """An open finding's signature matches a divergence when every stated key agrees; `features` must be a
    subset of the divergence's features. Never matches on the property id alone."""
    keys = [k for k in sig if k not in ('features', 'component_in')]
    if not keys and not sig.get('features'):
        return False
    for k in keys:
        if d.get(k) != sig[k]:
            return False
    if 'component_in' in sig and d.get('component') not in sig['component_in']:
        return False
    return set(sig.get('features', [])) <= set(d.get('features') or [])


class Run:
    def __init__(self, pid, tier, seed, level='model_checking'):
        self.pid = pid
        self.tier = tier
        self.seed = seed
        self.level = level
        self.t0 = time.time()
        self.states = 0
        self.transitions = 0
        self.cases = 0
        self.steps = 0
        self.traces = 0
        self.inconclusive = 0
        self.nontrivial = set()
        self.samples = []
        self.divs = []
        self.features = {}
        self.phases = []
        self.assumptions = []
        self.rule = ''
        self.extra = {}
        self.langs = None
        self.exhaustive = False
        self.spec_violation = None
        # thorough tier: bounded wall clock. A phase gets at most VERIF_PHASE_BUDGET seconds (cut gracefully, recorded);
        # once VERIF_CHECK_BUDGET seconds are used up the remaining phases are skipped (recorded). Quick tier: no budgets,
        # a timeout there is a machinery failure.
        self.phase_budget = int(os.environ.get('VERIF_PHASE_BUDGET', '600')) if tier != 'quick' else None
        self.check_budget = int(os.environ.get('VERIF_CHECK_BUDGET', '1800')) if tier != 'quick' else None

    # ---------------------------------------------------------------- phases
    def _budget(self, timeout, kind, name, module=None, cfg=None, env=None):
        """(timeout to use, skip?) under the thorough tier's wall-clock budgets"""
        if self.check_budget is None:
            return timeout, False
        if time.time() - self.t0 > self.check_budget:
            self.phases.append({'phase': kind, 'name': name, 'module': module, 'cfg': cfg, 'env': env or {},
                                'skipped': 'time budget of the check (%d s) used up' % self.check_budget})
            return timeout, True
        return min(timeout, self.phase_budget), False

    def libs(self):
        if self.langs is None:
            self.langs = common.dump_langs()
        return self.langs

    def mc(self, module, cfg, env=None, timeout=900, workers=None, coverage=True, name=None, simulate=None,
           depth=None, must_cover=()):
        """(A) exhaustive (or simulated) check of the specification itself. A violation here means the
        specification is inconsistent: that is a machinery error, not a verdict about the code."""
        timeout, skip = self._budget(timeout, 'mc', name or cfg, module, cfg, env)
        if skip:
            return None
        r = tlc.run_tlc(module, cfg, env=env, timeout=timeout, workers=workers, coverage=coverage,
                        simulate=simulate, depth=depth, seed=self.seed if simulate else None,
                        allow_timeout=(self.tier != 'quick'))
        if r.violation:
            raise tlc.MachineryError('specification-level violation in %s/%s:\n%s' % (module, cfg, r.violation[:3000]))
        self.states += r.distinct
        self.transitions += r.generated
        if r.error == 'timeout':
            # thorough tier only: the state space was explored breadth-first for the whole time budget without a
            # violation; no coverage report exists for a run that was cut, exhaustiveness is not claimed for it
            self.phases.append({'phase': 'mc', 'name': name or cfg, 'module': module, 'cfg': cfg, 'env': env or {},
                                'distinct': r.distinct, 'generated': r.generated, 'wall_s': round(r.wall, 1),
                                'cut_by_time_budget_s': timeout})
            return r
        never = [a for a in must_cover if r.coverage.get(a, (0, 0))[1] == 0]
        if never:
            raise tlc.MachineryError('vacuity: actions never taken in %s/%s: %s' % (module, cfg, never))
        self.phases.append({'phase': 'mc', 'name': name or cfg, 'module': module, 'cfg': cfg, 'env': env or {},
                            'distinct': r.distinct, 'generated': r.generated, 'depth': r.depth,
                            'wall_s': round(r.wall, 1),
                            'actions_covered': {k: v[1] for k, v in sorted(r.coverage.items()) if v[1] > 0}})
        return r

    def gen_replay(self, module, cfg, adapter, adapter_args=None, env=None, timeout=900, workers=8,
                   simulate=None, depth=None, name=None, replay_workers=None, seed=None, max_cases=None, keep=None):
        """(B) TLC generates behaviours / cases as JSON lines; each is replayed into the real code."""
        if len(self.divs) >= 300 or getattr(self, 'hang_seen', False):
            # hundreds of divergences (or a tree that hangs): the verdict cannot change any more, save the time
            self.phases.append({'phase': 'gen_replay', 'name': name or cfg, 'module': module, 'cfg': cfg, 'env': env or {},
                                'skipped': 'verdict already clear: %d divergences so far%s' % (
                                    len(self.divs), ', cases timing out' if getattr(self, 'hang_seen', False) else '')})
            return {'cases': 0, 'div': []}
        timeout, skip = self._budget(timeout, 'gen_replay', name or cfg, module, cfg, env)
        if skip:
            return {'cases': 0, 'div': []}
        eng = replay.Engine(adapter, adapter_args, workers=replay_workers)
        try:
            r = tlc.run_tlc(module, cfg, env=env, timeout=timeout, workers=workers, on_raw=eng.feed,
                            simulate=simulate, depth=depth, seed=seed if seed is not None else self.seed,
                            allow_timeout=True, stop_after=max_cases)
        finally:
            tot = eng.finish()
        if r.violation:
            raise tlc.MachineryError('specification-level violation in %s/%s:\n%s' % (module, cfg, r.violation[:3000]))
        if tot['errors']:
            raise tlc.MachineryError('replay machinery error: %s' % tot['errors'][0])
        if r.error == 'timeout' and simulate is None and self.tier == 'quick':
            # quick tier: an enumeration must finish. If it did not because the tree under test makes the replay slow (TLC
            # blocks on its output pipe) and divergences were found, the verdict stands; otherwise it is a machinery failure
            kept = [d for d in tot['div'] if keep is None or keep(d) or d.get('kind') == 'timeout']
            if not kept:
                raise tlc.MachineryError('TLC timed out after %ss: %s' % (timeout, r.cmd))
            self.hang_seen = True
        if tot.get('drain_timed_out'):
            kept = [d for d in tot['div'] if keep is None or keep(d) or d.get('kind') == 'timeout']
            if not kept and self.tier == 'quick':
                raise tlc.MachineryError('replay of %s/%s did not finish within 900 s after TLC (cases unusually slow) and '
                                         'no divergence was found in what was replayed' % (module, cfg))
            self.hang_seen = True          # later phases are skipped: the tree under test is far too slow
        self.states += r.distinct
        self.transitions += r.generated
        if tot.get('skipped_after_timeouts'):
            self.hang_seen = True
        if keep is not None:
            tot['div'] = [d for d in tot['div'] if keep(d) or d.get('kind') == 'timeout']
        self.absorb(tot)
        self.phases.append({'phase': 'gen_replay', 'name': name or cfg, 'module': module, 'cfg': cfg, 'env': env or {},
                            'tlc_distinct': r.distinct, 'tlc_generated': r.generated, 'cases': tot['cases'],
                            'steps': tot['steps'], 'divergences': len(tot['div']),
                            'inconclusive': tot['inconclusive'], 'wall_s': round(r.wall, 1),
                            'simulate': simulate})
        if r.error == 'timeout' and simulate is None:
            # thorough tier: an enumeration that does not finish inside its time budget is explored as far as the budget
            # allows (everything generated was replayed); recorded, and the run does not claim exhaustiveness for it
            self.phases[-1]['cut_by_time_budget_s'] = timeout
            self.exhaustive = False
        return tot

    def trace_validate(self, lang_record, traces, name, lang_name=None, selftest=True, timeout=900):
        """(C) traces recorded from the real code are validated by TLC against Trace_Model. A rejected trace is a
        divergence located at the first event ModelSM cannot explain. A few deliberately corrupted copies must be
        rejected at the corrupted event (binding self-test), otherwise the run is a machinery failure."""
        import copy
        from harness import validate
        _t, skip = self._budget(timeout, 'trace_validation', name)      # never cut short, only skipped when time is up
        if skip:
            return
        batch = list(traces)
        corrupted = {}
        src = {}
        if selftest:
            nid = max([t['id'] for t in traces] + [0]) + 1000
            for t in traces:
                if len(corrupted) >= 6:
                    break
                for k, e in enumerate(t['events']):
                    if e.get('res') == 'ok' and e.get('obs') and e['obs'].get('assets') and e['op'] in ('AddAsset', 'AddAssociation', 'RemoveAsset'):
                        c = copy.deepcopy(t)
                        c['id'] = nid
                        ce = c['events'][k]
                        mode = len(corrupted) % 3
                        if mode == 0:
                            ce['obs']['assets'][0]['id'] = ce['obs']['assets'][0]['id'] + 17
                        elif mode == 1:
                            ce['obs']['assets'] = ce['obs']['assets'][1:]
                        else:
                            ce['res'] = 'exc'
                        corrupted[nid] = k + 1
                        src[nid] = t['id']
                        batch.append(c)
                        nid += 1
                        break
        res = validate.validate_model_traces(lang_record, batch, timeout=timeout)
        stats = res.pop('__stats__')
        if '__violation__' in res:
            self.divs.append({'kind': 'trace_invariant', 'action': 'trace', 'component': 'invariant', 'features': [],
                              'detail': res['__violation__'][:2000], 'adapter': 'trace'})
            return
        for cid, pos in corrupted.items():
            v = res.get(cid)
            o = res.get(src[cid])
            if o is not None and o['status'] != 'accepted' and o['pos'] <= pos:
                continue            # the recorded trace itself is rejected earlier (reported below as a divergence)
            if v is None or v['status'] != 'rejected' or v['pos'] != pos:
                raise tlc.MachineryError('binding self-test failed: corrupted trace %s not rejected at event %s: %s'
                                         % (cid, pos, v))
        acc = inc = rej = 0
        for t in traces:
            v = res[t['id']]
            if v['status'] == 'accepted':
                acc += 1
            elif v['status'] == 'inconclusive':
                inc += 1
            else:
                rej += 1
                k = v['pos'] - 1
                ev = t['events'][k] if 0 <= k < len(t['events']) else {}
                self.divs.append({'kind': 'trace_rejected', 'action': ev.get('op'), 'component': 'trace',
                                  'features': [], 'step': k, 'label': t.get('label'),
                                  'events': [{a: b for a, b in e.items()} for e in t['events'][:k + 1]][-6:],
                                  'lang': lang_name, 'adapter': 'trace'})
            if len(t['events']) >= 2:
                self.nontrivial.add('trace:%s:%s' % (name, t['id']))
        nev = sum(len(t['events']) for t in traces)
        self.states += stats['distinct']
        self.transitions += stats['generated']
        self.traces += len(traces)
        self.cases += len(traces)
        self.steps += nev
        self.inconclusive += inc
        if traces and len(self.samples) < 5:
            self.samples.append({'trace_from': name, 'events': [{k: v for k, v in e.items() if k != 'obs'}
                                                                for e in traces[0]['events'][:6]]})
        self.phases.append({'phase': 'trace_validation', 'name': name, 'traces': len(traces), 'events': nev,
                            'accepted': acc, 'inconclusive_out_of_domain': inc, 'rejected': rej,
                            'corrupted_copies_rejected': len(corrupted), 'tlc_states': stats['distinct'],
                            'wall_s': stats['wall_s']})

    def trace_validate_graph(self, traces, name, selftest=True, timeout=900):
        """(C) attack-graph traces recorded by harness/gtracer.py validated by TLC against Trace_Graph (the GraphSM effect
        operators). Corrupted copies (a compromise pair dropped from the logged projection, a removed node left in it, an
        index probe answered with a stale node) must be rejected at the corrupted event."""
        import copy
        from harness import validate
        _t, skip = self._budget(timeout, 'trace_validation', name)      # never cut short, only skipped when time is up
        if skip:
            return
        batch = list(traces)
        corrupted = {}
        src = {}
        if selftest:
            nid = max([t['id'] for t in traces] + [0]) + 1000
            for t in traces:
                if len(corrupted) >= 6:
                    break
                for k, e in enumerate(t['events']):
                    if k == 0 or e.get('res') != 'ok':
                        continue
                    mode = len(corrupted) % 3
                    c = None
                    if mode == 0 and e['op'] == 'Compromise' and e['obs']['reached']:
                        c = copy.deepcopy(t)
                        c['events'][k]['obs']['reached'] = c['events'][k]['obs']['reached'][:-1]
                    elif mode == 1 and e['op'] == 'RemoveNode':
                        c = copy.deepcopy(t)
                        prev = t['events'][k - 1]['obs']
                        gone = [n for n in prev['nodes'] if n['h'] == e['h']]
                        if gone:
                            c['events'][k]['obs']['nodes'] = c['events'][k]['obs']['nodes'] + gone
                        else:
                            c = None
                    elif mode == 2 and e['op'] == 'RemoveNode' and e['obs']['idprobe']:
                        c = copy.deepcopy(t)
                        pr = c['events'][k]['obs']['idprobe']
                        z = [q for q in pr if q[1] == 0]
                        if z:
                            z[0][1] = e['h']          # the lookup still returns the removed node
                        else:
                            c = None
                    if c is not None:
                        c['id'] = nid
                        c['events'] = c['events'][:k + 1]
                        corrupted[nid] = k + 1
                        src[nid] = t['id']
                        batch.append(c)
                        nid += 1
                        break
        res = validate.validate_graph_traces(batch, timeout=timeout)
        stats = res.pop('__stats__')
        if '__violation__' in res:
            self.divs.append({'kind': 'trace_invariant', 'action': 'trace', 'component': 'invariant', 'features': [],
                              'detail': res['__violation__'][:2000], 'adapter': 'trace'})
            return
        for cid, pos in corrupted.items():
            v = res.get(cid)
            o = res.get(src[cid])
            if o is not None and o['status'] != 'accepted' and o['pos'] <= pos:
                continue            # the recorded trace itself is rejected earlier (reported below as a divergence)
            if v is None or v['status'] != 'rejected' or v['pos'] != pos:
                raise tlc.MachineryError('binding self-test failed: corrupted graph trace %s not rejected at event %s: %s'
                                         % (cid, pos, v))
        acc = inc = rej = 0
        for t in traces:
            v = res[t['id']]
            if v['status'] == 'accepted':
                acc += 1
            elif v['status'] == 'inconclusive':
                inc += 1
            else:
                rej += 1
                k = v['pos'] - 1
                ev = t['events'][k] if 0 <= k < len(t['events']) else {}
                self.divs.append({'kind': 'trace_rejected', 'action': ev.get('op'), 'component': 'trace', 'features': [],
                                  'step': k, 'label': t.get('label'),
                                  'events': [{a: b for a, b in e.items() if a != 'obs'} for e in t['events'][:k + 1]][-8:],
                                  'obs_at_rejection': {a: b for a, b in (ev.get('obs') or {}).items() if a != 'nodes'},
                                  'adapter': 'trace'})
            if len(t['events']) >= 3:
                self.nontrivial.add('gtrace:%s:%s' % (name, t['id']))
        nev = sum(len(t['events']) for t in traces)
        self.states += stats['distinct']
        self.transitions += stats['generated']
        self.traces += len(traces)
        self.cases += len(traces)
        self.steps += nev
        self.inconclusive += inc
        if traces and len(self.samples) < 5:
            self.samples.append({'graph_trace_from': name, 'events': [{k: v for k, v in e.items() if k != 'obs'}
                                                                      for e in traces[0]['events'][:8]]})
        self.phases.append({'phase': 'trace_validation', 'name': name, 'traces': len(traces), 'events': nev,
                            'accepted': acc, 'inconclusive_out_of_domain': inc, 'rejected': rej,
                            'corrupted_copies_rejected': len(corrupted), 'tlc_states': stats['distinct'],
                            'wall_s': stats['wall_s']})

    def corpus_model(self, adapter='harness.replay_model'):
        """Regression corpus (input only): the action sequences of past divergences are handed to TLC, which must accept
        them as ModelSM behaviours and recomputes the expected observation of every step (Trace_Model in emit mode);
        they are then replayed first. The corpus can never become a second oracle, and a reverted fix is caught at once."""
        import glob
        from harness import validate
        cdir = os.path.join(VERIF, 'corpus', self.pid)
        entries = []
        for f in sorted(glob.glob(os.path.join(cdir, '*.json'))):
            with open(f) as fh:
                e = json.load(fh)
            e['file'] = os.path.basename(f)
            entries.append(e)
        if not entries:
            return
        langs = self.libs()
        by_lang = {}
        for i, e in enumerate(entries):
            evs = [dict(x, ep=x.get('ep', [])) if x.get('op') == 'AddAttacker' else x for x in e['events']]
            by_lang.setdefault(e['lang'], []).append({'id': i + 1, 'events': evs, 'file': e['file']})
        eng = replay.Engine(adapter, {'langs': langs}, workers=2)
        n = 0
        try:
            for lang, ts in by_lang.items():
                res = validate.validate_model_traces(langs[lang], ts, emit=True)
                stats = res.pop('__stats__')
                if '__violation__' in res:
                    raise tlc.MachineryError('corpus: specification invariant violated: ' + res['__violation__'][:500])
                for t in ts:
                    v = res[t['id']]
                    if v['status'] != 'accepted' or not v.get('hist'):
                        raise tlc.MachineryError('corpus entry %s is no longer a behaviour of the specification (stopped at event %s)'
                                                 % (t['file'], v['pos']))
                    eng.feed({'lang': lang, 'hist': v['hist']})
                    n += 1
                self.states += stats['distinct']
                self.transitions += stats['generated']
        finally:
            tot = eng.finish()
        if tot['errors']:
            raise tlc.MachineryError('corpus replay error: %s' % tot['errors'][0])
        self.absorb(tot)
        self.phases.append({'phase': 'corpus', 'entries': n, 'divergences': len(tot['div'])})

    def apalache(self, module, obligations, timeout=600):
        """spec-level proof obligations discharged by Apalache (inductive invariant): each is (init, inv, length)"""
        import subprocess
        out_dir = tlc.scratch('apalache')
        done = 0
        for (init, inv, length) in obligations:
            cmd = ['apalache-mc', 'check', '--init=' + init, '--inv=' + inv, '--length=%d' % length, '--out-dir=' + out_dir,
                   module + '.tla']
            p = subprocess.run(cmd, cwd=tlc.SPEC, stdout=subprocess.PIPE, stderr=subprocess.STDOUT, text=True, timeout=timeout)
            if 'EXITCODE: OK' not in p.stdout:
                raise tlc.MachineryError('Apalache did not discharge %s / %s / length %d of %s:\n%s'
                                         % (init, inv, length, module, p.stdout[-1500:]))
            done += 1
        self.extra['obligations'] = self.extra.get('obligations', 0) + len(obligations)
        self.extra['discharged'] = self.extra.get('discharged', 0) + done
        self.extra['checker_cmd'] = 'apalache-mc check --init=<init> --inv=<inv> --length=<n> spec/%s.tla' % module
        self.phases.append({'phase': 'apalache', 'module': module, 'obligations': [list(o) for o in obligations], 'discharged': done})

    def absorb(self, tot):
        self.cases += tot['cases']
        self.steps += tot['steps']
        self.traces += tot['cases']
        self.inconclusive += tot['inconclusive']
        self.nontrivial.update(tot['nontrivial'])
        for s in tot['samples']:
            if len(self.samples) < 4:
                self.samples.append(s)
        self.divs.extend(tot['div'])
        for f, n in tot['features'].items():
            self.features[f] = self.features.get(f, 0) + n

    # ------------------------------------------------------------- verdicts
    def finish(self):
        findings = load_findings()
        open_f = [f for f in findings.get('open', []) if f.get('property') == self.pid]
        known_hits = {}
        violations = []
        for d in self.divs:
            hit = None
            for i, f in enumerate(open_f):
                if matches(f.get('signature', {}), d):
                    hit = i
                    break
            if hit is not None:
                known_hits.setdefault(hit, []).append(d)
            else:
                violations.append(d)
        for i, ds in known_hits.items():
            print('KNOWN-FINDING: property=%s %s (%d occurrences this run)' % (self.pid, open_f[i]['what'], len(ds)))
        # distinct violation signatures -> one replay file each (first example), at most 20 lines
        seen = {}
        for d in violations:
            seen.setdefault(common.signature(d), []).append(d)
        rdir = os.path.join(REPLAYS, self.pid)
        nviol = 0
        for sig, ds in list(seen.items())[:20]:
            os.makedirs(rdir, exist_ok=True)
            d = ds[0]
            h = hashlib.sha1(json.dumps(d, sort_keys=True, default=str).encode()).hexdigest()[:12]
            path = os.path.join(rdir, h + '.json')
            with open(path, 'w') as f:
                json.dump({'property': self.pid, 'signature': {'kind': sig[0], 'action': sig[1], 'component': sig[2],
                                                              'features': list(sig[3])},
                           'occurrences': len(ds), 'divergence': d}, f, indent=1, default=str)
            print('VIOLATION property=%s replay=%s' % (self.pid, path))
            print('   %d occurrence(s): %s' % (len(ds), json.dumps(sig)))
            nviol += 1
        self.write_evidence(len(violations), {open_f[i]['what']: len(ds) for i, ds in known_hits.items()})
        return 1 if nviol else 0

    def write_evidence(self, nviol, known):
        os.makedirs(EVID, exist_ok=True)
        cov = {
            'evaluations': int(self.cases),
            'distinct_nontrivial': len(self.nontrivial),
            'rule': self.rule,
            'samples': self.samples[:4] or [{'note': 'no case produced'}],
            'states': int(self.states),
            'transitions': int(self.transitions),
            'traces_validated_against_impl': int(self.traces),
            'steps_compared': int(self.steps),
            'inconclusive': int(self.inconclusive),
            'features_exercised': self.features,
            'phases': self.phases,
            'known_findings_reproduced': known,
            'exhaustive': bool(self.exhaustive),
        }
        cov.update(self.extra)
        ev = {'property_id': self.pid, 'tier': self.tier, 'seed': int(self.seed), 'level': self.level,
              'coverage': cov, 'assumptions': self.assumptions, 'wall_s': round(time.time() - self.t0, 1),
              'violations': int(nviol)}
        with open(os.path.join(EVID, self.pid + '.json'), 'w') as f:
            json.dump(ev, f, indent=1, default=str)
