"""Shared helpers for checks: language library dump, divergence signatures, evidence writing."""
import collections
import json
import os
import sys
import time

from harness import tlc

VERIF = os.path.dirname(os.path.dirname(os.path.abspath(__file__)))


def dump_langs():
    langs = {}
    tlc.run_tlc('DumpLangs', 'DumpLangs.cfg', workers=1,
                on_json=lambda v: langs.__setitem__(v['name'], v['lang']) if v.get('wf') else None)
    return langs


def dump_lang_tokens():
    """MAL token sequences (Tok!LangToks) of the library languages, printed by TLC"""
    toks = {}
    tlc.run_tlc('DumpLangs', 'DumpLangs.cfg', workers=1,
                on_json=lambda v: toks.__setitem__(v['name'], v['toks']) if v.get('wf') else None)
    return toks


def signature(d):
    return (d.get('kind'), d.get('action'), d.get('component'), tuple(d.get('features') or ()))


def group_divs(divs):
    g = collections.OrderedDict()
    for d in divs:
        g.setdefault(signature(d), []).append(d)
    return g
