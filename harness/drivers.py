"""Random API drivers: exercise the real Model with valid and invalid calls while the tracer records."""
import random


def drive_model(ctx, rng, steps=14, max_assets=5):
    """One random history on a fresh Model; returns the model (the tracer holds the trace)."""
    from maltoolbox.model import AttackerAttachment
    L = ctx.L
    m = ctx.new_model('drv')
    types = [a['name'] for a in L['assets']]
    names = ['n1', 'n2', 'n1:1', 'n2:3', None]
    ids = [None, None, 0, -1, 2, 5]
    assets, dead_assets, assocs, dead_assocs, atks, dead_atks = [], [], [], [], [], []
    step_names = sorted({s['name'] for a in L['assets'] for s in a['steps']})[:3] + ['zz']
    for _ in range(steps):
        op = rng.choice(['add', 'add', 'add', 'rm', 'assoc', 'assoc', 'assoc', 'rmassoc', 'rmfrom', 'atk', 'rmatk',
                         'ep', 'rmep', 'def', 'readd', 'readd_assoc', 'readd_atk'])
        try:
            if op == 'add' and len(m.assets) < max_assets:
                T = rng.choice(types)
                n = rng.choice(names)
                o = getattr(ctx.ns, T)(name=n) if n is not None else getattr(ctx.ns, T)()
                kw = {}
                i = rng.choice(ids)
                if i is not None:
                    kw['asset_id'] = i
                if rng.random() < 0.4:
                    kw['allow_duplicate_names'] = False
                try:
                    m.add_asset(o, **kw)
                    assets.append(o)
                except Exception:
                    dead_assets.append(o)
            elif op == 'readd' and dead_assets and len(m.assets) < max_assets:
                o = rng.choice(dead_assets)             # an object we got back (removed or rejected) is handed in again
                kw = {}
                i = rng.choice(ids)
                if i is not None:
                    kw['asset_id'] = i
                if rng.random() < 0.3:
                    kw['allow_duplicate_names'] = False
                try:
                    m.add_asset(o, **kw)
                    dead_assets.remove(o)
                    assets.append(o)
                except Exception:
                    pass
            elif op == 'readd_assoc' and dead_assocs:
                a = rng.choice(dead_assocs)
                try:
                    m.add_association(a)
                    dead_assocs.remove(a)
                    assocs.append(a)
                except Exception:
                    pass
            elif op == 'readd_atk' and dead_atks and len(atks) < 2:
                t = rng.choice(dead_atks)
                m.add_attacker(t)
                dead_atks.remove(t)
                atks.append(t)
            elif op == 'rm' and (assets or dead_assets):
                pool = assets if (assets and rng.random() < 0.8) else (dead_assets or assets)
                o = rng.choice(pool)
                try:
                    m.remove_asset(o)
                    if o in assets:
                        assets.remove(o)
                        dead_assets.append(o)
                except Exception:
                    pass
                assocs[:] = [a for a in assocs if any(a is b for b in m.associations)]
            elif op == 'assoc' and assets:
                ci = rng.randrange(len(L['assocs'])) + 1
                decl = L['assocs'][ci - 1]
                a = ctx.assoc_class(ci)()
                try:
                    setattr(a, decl['lf'], [rng.choice(assets) for _ in range(rng.choice([1, 1, 2]))])
                    setattr(a, decl['rf'], [rng.choice(assets) for _ in range(rng.choice([1, 1, 2]))])
                    m.add_association(a)
                    assocs.append(a)
                except Exception:
                    pass
            elif op == 'rmassoc' and (assocs or dead_assocs):
                pool = assocs if (assocs and rng.random() < 0.8) else (dead_assocs or assocs)
                a = rng.choice(pool)
                try:
                    m.remove_association(a)
                    if a in assocs:
                        assocs.remove(a)
                        dead_assocs.append(a)
                except Exception:
                    pass
            elif op == 'rmfrom' and assets and assocs:
                try:
                    m.remove_asset_from_association(rng.choice(assets), rng.choice(assocs))
                except Exception:
                    pass
                assocs[:] = [a for a in assocs if any(a is b for b in m.associations)]
            elif op == 'atk' and len(atks) < 2:
                t = AttackerAttachment(name=rng.choice([None, 'atk']))
                i = rng.choice([None, None, 0, 7])
                if i is not None and any(x.id == i for x in m.attackers):
                    i = None
                m.add_attacker(t, attacker_id=i) if i is not None else m.add_attacker(t)
                atks.append(t)
            elif op == 'rmatk' and atks:
                t = rng.choice(atks)
                try:
                    m.remove_attacker(t)
                    atks.remove(t)
                    dead_atks.append(t)
                except Exception:
                    pass
            elif op == 'ep' and atks and assets:
                rng.choice(atks).add_entry_point(rng.choice(assets), rng.choice(step_names))
            elif op == 'rmep' and atks and assets:
                rng.choice(atks).remove_entry_point(rng.choice(assets), rng.choice(step_names))
            elif op == 'def' and assets:
                o = rng.choice(assets)
                ds = list(m.get_asset_defenses(o, include_defaults=True))
                if ds:
                    try:
                        setattr(o, rng.choice(ds), rng.choice([0.0, 0.5, 1.0, 1.5, -0.1]))
                    except Exception:
                        pass
        except Exception:
            raise
    return m


def drive_graph(ctx, rng, steps=14):
    """One random history on a freshly generated attack graph of a small random model (tracers record)."""
    from maltoolbox.attackgraph import AttackGraph, AttackGraphNode, Attacker
    from maltoolbox.attackgraph.analyzers import apriori
    import copy
    L = ctx.L
    m = ctx.new_model('gdrv')
    types = [a['name'] for a in L['assets']]
    assets = []
    for i in range(rng.choice([1, 2, 3])):
        o = getattr(ctx.ns, rng.choice(types))(name='a%d' % i)
        m.add_asset(o)
        assets.append(o)
    for _ in range(rng.choice([0, 1, 2, 3])):
        ci = rng.randrange(len(L['assocs'])) + 1
        decl = L['assocs'][ci - 1]
        a = ctx.assoc_class(ci)()
        try:
            setattr(a, decl['lf'], [rng.choice(assets)])
            setattr(a, decl['rf'], [rng.choice(assets)])
            m.add_association(a)
        except Exception:
            pass
    g = AttackGraph(ctx.lang_graph, m)
    atks = []
    extra = []
    for _ in range(steps):
        op = rng.choice(['addatk', 'rmatk', 'comp', 'comp', 'comp', 'undo', 'undo', 'rmnode', 'addnode', 'analyse', 'prune', 'label', 'copy'])
        try:
            if op == 'addatk' and len(atks) < 3:
                a = Attacker(name='t%d' % len(atks))
                i = rng.choice([None, None, 0, 5])
                if i is not None and g.get_attacker_by_id(i) is not None:
                    i = None
                g.add_attacker(a, attacker_id=i) if i is not None else g.add_attacker(a)
                atks.append(a)
            elif op == 'rmatk' and atks:
                a = rng.choice(atks)
                g.remove_attacker(a)
                atks.remove(a)
            elif op == 'comp' and atks and g.nodes:
                a, n = rng.choice(atks), rng.choice(g.nodes)
                a.compromise(n) if rng.random() < 0.5 else n.compromise(a)
            elif op == 'undo' and atks and g.nodes:
                a, n = rng.choice(atks), rng.choice(g.nodes)
                a.undo_compromise(n) if rng.random() < 0.5 else n.undo_compromise(a)
            elif op == 'rmnode' and g.nodes:
                g.remove_node(rng.choice(g.nodes))
            elif op == 'addnode' and len(extra) < 2:
                n = AttackGraphNode(type=rng.choice(['or', 'and']), name='x')
                g.add_node(n)
                extra.append(n)
                if g.nodes:
                    p = rng.choice(g.nodes)
                    p.children.append(n)
                    n.parents.append(p)
            elif op == 'analyse' and all(n.is_viable and n.is_necessary for n in g.nodes):
                apriori.calculate_viability_and_necessity(g)
            elif op == 'prune':
                apriori.prune_unviable_and_unnecessary_nodes(g)
            elif op == 'label' and g.nodes:
                rng.choice(g.nodes).is_viable = False
            elif op == 'copy':
                g2 = copy.deepcopy(g)
                if g2.nodes and rng.random() < 0.7:
                    g2.remove_node(rng.choice(g2.nodes))
        except Exception:
            pass          # the tracer has logged the call with res = 'exc'; validation judges it
    return g
