"""Run in a FRESH process (own PYTHONHASHSEED): build the attack graph for a language file and a model file and print
its serialisation. argv: <lang file> <model file> <mode: api|wrapper>"""
import json
import os
import sys

repo = os.environ.get('VERIF_REPO', '/repo')
sys.path.insert(0, repo)
import logging
logging.disable(logging.CRITICAL)


def main():
    lang, model, mode = sys.argv[1:4]
    if mode == 'wrapper':
        from maltoolbox.wrappers import create_attack_graph
        g = create_attack_graph(lang, model)
    else:
        from maltoolbox.language import LanguageGraph, LanguageClassesFactory
        from maltoolbox.model import Model
        from maltoolbox.attackgraph import AttackGraph
        from maltoolbox.attackgraph.analyzers.apriori import calculate_viability_and_necessity
        lg = LanguageGraph.from_mal_spec(lang) if lang.endswith('.mal') else LanguageGraph.from_mar_archive(lang)
        m = Model.load_from_file(model, LanguageClassesFactory(lg))
        g = AttackGraph(lg, m)
        g.attach_attackers()
        calculate_viability_and_necessity(g)
    sys.stdout.write(json.dumps(g._to_dict(), default=str))


if __name__ == '__main__':
    main()
