"""Tracer for the attack graph: wraps AttackGraph / Attacker / AttackGraphNode methods and the apriori analysers from
outside; one trace per AttackGraph object, starting with an Install event (the full logged state when the object is
first seen); every later top-level call is one event with the projection taken after the call. Library code that
manipulates public fields directly (generation, loading, deep copy) shows up as a re-Install."""
import functools
import json

NOID = 99


def has_dist(n):
    t = n.ttc
    return bool(t and isinstance(t, dict) and 'name' in t and t['name'] not in ('Enabled', 'Disabled'))


class GTrace:
    def __init__(self, graph, label=None):
        self.graph = graph
        self.label = label
        self.events = []
        self.h = {}
        self.keep = []
        self.next = 1
        self.ids_seen = set()
        self.atk_ids_seen = set()
        self.last_core = None

    def handle(self, o):
        k = id(o)
        if k not in self.h:
            self.h[k] = self.next
            self.next += 1
            self.keep.append(o)
        return self.h[k]

    def obs(self):
        g = self.graph
        nodes, ch, pa, comp = [], [], [], []
        for n in g.nodes:
            if n.type == 'defense':
                st = -1 if n.defense_status is None else int(round(float(n.defense_status) * 10))
            elif n.type in ('exist', 'notExist'):
                st = -1 if n.existence_status is None else (10 if n.existence_status else 0)
            else:
                st = -1
            nodes.append({'h': self.handle(n), 'id': n.id if isinstance(n.id, int) else -1, 'asset': 0, 'step': str(n.full_name),
                          'kind': str(n.type), 'st': st, 'dist': has_dist(n), 'V': bool(n.is_viable), 'N': bool(n.is_necessary)})
            for c in n.children:
                ch.append([self.handle(n), self.handle(c)])
            for p in n.parents:
                pa.append([self.handle(p), self.handle(n)])
            for a in n.compromised_by:
                comp.append([self.handle(n), self.handle(a)])
            if isinstance(n.id, int):
                self.ids_seen.add(n.id)
        atk, reached, entry = [], [], []
        for a in g.attackers:
            atk.append({'h': self.handle(a), 'id': a.id if isinstance(a.id, int) else -1, 'name': str(a.name)})
            for n in a.reached_attack_steps:
                reached.append([self.handle(a), self.handle(n)])
            for n in a.entry_points:
                entry.append([self.handle(a), self.handle(n)])
            if isinstance(a.id, int):
                self.atk_ids_seen.add(a.id)
        idprobe = []
        for i in sorted(self.ids_seen):
            r = g.get_node_by_id(i)
            idprobe.append([i, self.handle(r) if r is not None else 0])
        atkprobe = []
        for i in sorted(self.atk_ids_seen):
            r = g.get_attacker_by_id(i)
            atkprobe.append([i, self.handle(r) if r is not None else 0])
        return {'nodes': nodes, 'ch': ch, 'pa': pa, 'atk': atk, 'reached': reached, 'entry': entry, 'compBy': comp,
                'nextId': g.next_node_id, 'nextAtk': g.next_attacker_id, 'hasModel': g.model is not None,
                'hasLang': g.lang_graph is not None, 'idprobe': idprobe, 'atkprobe': atkprobe}

    @staticmethod
    def core(o):
        return json.dumps([sorted(json.dumps(n, sort_keys=True) for n in o['nodes']), sorted(map(tuple, o['ch'])),
                           sorted(map(tuple, o['pa'])), sorted(json.dumps(a, sort_keys=True) for a in o['atk']),
                           sorted(map(tuple, o['reached'])), sorted(map(tuple, o['entry'])), sorted(map(tuple, o['compBy'])),
                           o['nextId'], o['nextAtk']])

    def install(self, why):
        o = self.obs()
        self.events.append({'op': 'Install', 'why': why, 'res': 'ok', 'obs': o})
        self.last_core = self.core(o)

    def sync(self):
        """state changed since the last logged event without an API call: log it as a re-Install"""
        o = self.obs()
        if self.last_core is None or self.core(o) != self.last_core:
            self.events.append({'op': 'Install', 'why': 'fields changed outside the traced API', 'res': 'ok', 'obs': o})
            self.last_core = self.core(o)

    def log(self, ev):
        o = self.obs()
        ev['obs'] = o
        self.events.append(ev)
        self.last_core = self.core(o)


class GTracer:
    def __init__(self):
        self.traces = {}
        self.order = []
        self.owner = {}      # id(node / attacker) -> GTrace
        self.depth = 0
        self.installed = False
        self.originals = []
        self.current_label = None

    def trace_of(self, graph, why='first seen'):
        k = id(graph)
        if k not in self.traces:
            t = GTrace(graph, self.current_label)
            self.traces[k] = t
            self.order.append(k)
            t.keep.append(graph)
            t.install(why)
            self.adopt(t)
        return self.traces[k]

    def adopt(self, t):
        for n in t.graph.nodes:
            self.owner[id(n)] = t
        for a in t.graph.attackers:
            self.owner[id(a)] = t

    def install(self):
        if self.installed:
            return
        self.installed = True
        import maltoolbox.attackgraph.attackgraph as ag
        import maltoolbox.attackgraph.attacker as at
        import maltoolbox.attackgraph.node as nd
        import maltoolbox.attackgraph.analyzers.apriori as ap
        T = self

        def wrap(holder, name, mk, find_trace, is_func=False):
            orig = getattr(holder, name)
            T.originals.append((holder, name, orig))

            @functools.wraps(orig)
            def w(*a, **kw):
                if T.depth > 0:
                    return orig(*a, **kw)
                tr = find_trace(a, kw)
                if tr is None:
                    return orig(*a, **kw)
                tr.sync()
                ev = mk(tr, a, kw)
                T.depth += 1
                res = 'ok'
                try:
                    return orig(*a, **kw)
                except Exception:
                    res = 'exc'
                    raise
                finally:
                    T.depth -= 1
                    ev['res'] = res
                    post = ev.pop('_post', None)
                    if post:
                        post(ev)
                    T.adopt(tr)
                    tr.log(ev)
            setattr(holder, name, w)

        def arg(a, kw, i, name, default=None):
            return kw[name] if name in kw else (a[i] if len(a) > i else default)

        # constructor: a generated graph is installed after __init__
        orig_init = ag.AttackGraph.__init__
        T.originals.append((ag.AttackGraph, '__init__', orig_init))

        @functools.wraps(orig_init)
        def init(self, *a, **kw):
            T.depth += 1
            try:
                orig_init(self, *a, **kw)
            finally:
                T.depth -= 1
            if T.depth == 0:
                T.trace_of(self, 'constructed')
        ag.AttackGraph.__init__ = init

        g_of = lambda a, kw: T.trace_of(a[0])

        def mk_add_node(tr, a, kw):
            n = arg(a, kw, 1, 'node')
            rid = arg(a, kw, 2, 'node_id')
            ev = {'op': 'AddNode', 'h': tr.handle(n), 'kind': str(n.type), 'reqId': NOID if rid is None else int(rid),
                  'preset': bool(n.children or n.parents or n.compromised_by)}
            ev['_post'] = lambda e: e.__setitem__('id', n.id if isinstance(n.id, int) else -1)
            return ev
        wrap(ag.AttackGraph, 'add_node', mk_add_node, g_of)
        wrap(ag.AttackGraph, 'remove_node', lambda tr, a, kw: {'op': 'RemoveNode', 'h': tr.handle(arg(a, kw, 1, 'node'))}, g_of)

        def mk_add_attacker(tr, a, kw):
            x = arg(a, kw, 1, 'attacker')
            rid = arg(a, kw, 2, 'attacker_id')
            ev = {'op': 'AddGAttacker', 'h': tr.handle(x), 'reqId': NOID if rid is None else int(rid), 'name': str(x.name)}

            def post(e):
                e['id'] = x.id if isinstance(x.id, int) else -1
                e['entry'] = [tr.handle(n) for n in x.entry_points]
                e['reached'] = [tr.handle(n) for n in x.reached_attack_steps]
            ev['_post'] = post
            return ev
        wrap(ag.AttackGraph, 'add_attacker', mk_add_attacker, g_of)
        wrap(ag.AttackGraph, 'remove_attacker', lambda tr, a, kw: {'op': 'RemoveGAttacker', 'h': tr.handle(arg(a, kw, 1, 'attacker'))}, g_of)
        def mk_attach(tr, a, kw):
            g = a[0]
            before = {id(x) for x in g.attackers}
            ev = {'op': 'AttachAttackers'}

            def post(e):
                e['atks'] = [{'h': tr.handle(x), 'id': x.id if isinstance(x.id, int) else -1, 'name': str(x.name),
                              'entry': [tr.handle(n) for n in x.entry_points],
                              'reached': [tr.handle(n) for n in x.reached_attack_steps]}
                             for x in g.attackers if id(x) not in before]
            ev['_post'] = post
            return ev
        wrap(ag.AttackGraph, 'attach_attackers', mk_attach, g_of)
        wrap(ag.AttackGraph, 'regenerate_graph', lambda tr, a, kw: {'op': 'Other', 'what': 'regenerate_graph'}, g_of)

        def own(a, kw):
            return T.owner.get(id(a[0])) or T.owner.get(id(a[1]))
        wrap(at.Attacker, 'compromise', lambda tr, a, kw: {'op': 'Compromise', 'a': tr.handle(a[0]), 'h': tr.handle(arg(a, kw, 1, 'node')), 'side': 'attacker'}, own)
        wrap(at.Attacker, 'undo_compromise', lambda tr, a, kw: {'op': 'Undo', 'a': tr.handle(a[0]), 'h': tr.handle(arg(a, kw, 1, 'node')), 'side': 'attacker'}, own)
        wrap(nd.AttackGraphNode, 'compromise', lambda tr, a, kw: {'op': 'Compromise', 'a': tr.handle(arg(a, kw, 1, 'attacker')), 'h': tr.handle(a[0]), 'side': 'node'}, own)
        wrap(nd.AttackGraphNode, 'undo_compromise', lambda tr, a, kw: {'op': 'Undo', 'a': tr.handle(arg(a, kw, 1, 'attacker')), 'h': tr.handle(a[0]), 'side': 'node'}, own)
        wrap(ap, 'calculate_viability_and_necessity', lambda tr, a, kw: {'op': 'Analyse'}, lambda a, kw: T.trace_of(arg(a, kw, 0, 'graph')))
        wrap(ap, 'prune_unviable_and_unnecessary_nodes', lambda tr, a, kw: {'op': 'Prune'}, lambda a, kw: T.trace_of(arg(a, kw, 0, 'graph')))

    def uninstall(self):
        for holder, name, orig in reversed(self.originals):
            setattr(holder, name, orig)
        self.originals = []
        self.installed = False

    def reset(self):
        self.traces = {}
        self.order = []
        self.owner = {}

    def dump(self, min_events=2):
        out = []
        for n, k in enumerate(self.order):
            t = self.traces[k]
            try:
                t.sync()
            except Exception:
                pass
            if len(t.events) >= min_events:
                out.append({'id': n + 1, 'label': t.label, 'events': t.events})
        return out


GTRACER = GTracer()
