"""Materialise what TLC produced: a Lang record (TJ normal form) becomes a langspec dict /
MAL text / .mar; nothing here computes an expectation."""
import copy
import io
import json
import os
import sys
import zipfile

REPO = os.environ.get('VERIF_REPO', '/repo')
if REPO not in sys.path:
    sys.path.insert(0, REPO)


def ttc(t):
    if t['type'] == 'none':
        return None
    if t['type'] == 'number':
        return {'type': 'number', 'value': float(t['text']) if 'text' in t else t['value10'] / 10}
    if t['type'] == 'function':
        if t.get('astext'):
            return {'type': 'function', 'name': t['name'], 'arguments': [float(a) for a in t['arguments']]}
        return {'type': 'function', 'name': t['name'], 'arguments': [a / 10 for a in t['arguments']]}
    return {'type': t['type'], 'lhs': ttc(t['lhs']), 'rhs': ttc(t['rhs'])}


def meta(ms):
    return {m['k']: m['v'] for m in ms}


def spec_of(L):
    """Lang record -> langspec dict in the layout of langspec.json (as malc / MalCompiler emit it)."""
    assets = []
    for a in L['assets']:
        steps = []
        for s in a['steps']:
            steps.append({
                'name': s['name'], 'meta': meta(s['meta']), 'type': s['kind'], 'tags': list(s['tags']),
                'risk': ({'isConfidentiality': s['risk']['c'], 'isIntegrity': s['risk']['i'],
                          'isAvailability': s['risk']['a']} if s['risk']['present'] else None),
                'ttc': ttc(s['ttc']),
                'requires': ({'overrides': True, 'stepExpressions': copy.deepcopy(s['requires']['exprs'])}
                             if s['requires']['present'] else None),
                'reaches': ({'overrides': s['reaches']['overrides'],
                             'stepExpressions': copy.deepcopy(s['reaches']['exprs'])}
                            if s['reaches']['present'] else None)})
        assets.append({'name': a['name'], 'meta': meta(a['meta']), 'category': a['category'],
                       'isAbstract': a['abstract'],
                       'superAsset': None if a['super'] == 'NONE' else a['super'],
                       'variables': [{'name': v['name'], 'stepExpression': copy.deepcopy(v['expr'])}
                                     for v in a['vars']],
                       'attackSteps': steps})
    assocs = [{'name': x['name'], 'meta': meta(x['meta']), 'leftAsset': x['lt'], 'leftField': x['lf'],
               'leftMultiplicity': {'min': x['lmin'], 'max': None if x['lmax'] == -1 else x['lmax']},
               'rightAsset': x['rt'], 'rightField': x['rf'],
               'rightMultiplicity': {'min': x['rmin'], 'max': None if x['rmax'] == -1 else x['rmax']}}
              for x in L['assocs']]
    return {'formatVersion': '1.0.0', 'defines': {'id': L['id'], 'version': L['version']},
            'categories': [{'name': c['name'], 'meta': meta(c['meta'])} for c in L['categories']],
            'assets': assets, 'associations': assocs}


def mar_bytes(spec):
    buf = io.BytesIO()
    with zipfile.ZipFile(buf, 'w') as z:
        z.writestr('langspec.json', json.dumps(spec))
    return buf.getvalue()


def class_name(L, ci):
    """Name of the generated association class for association index ci (1-based, as in the record)."""
    a = L['assocs'][ci - 1]
    shared = sum(1 for b in L['assocs'] if b['name'] == a['name']) > 1
    return '%s_%s_%s' % (a['name'], a['lt'], a['rt']) if shared else a['name']


class LangCtx:
    """Real toolbox objects for one language record."""

    def __init__(self, L, fresh_spec=True):
        from maltoolbox.language import LanguageGraph, LanguageClassesFactory
        self.L = L
        self.spec = spec_of(L)
        self.spec_snapshot = copy.deepcopy(self.spec)
        self.lang_graph = LanguageGraph(self.spec)
        self.factory = LanguageClassesFactory(self.lang_graph)
        self.ns = self.factory.ns

    def new_model(self, name='m'):
        from maltoolbox.model import Model
        return Model(name, self.factory)

    def assoc_class(self, ci):
        a = self.L['assocs'][ci - 1]
        shared = sum(1 for b in self.L['assocs'] if b['name'] == a['name']) > 1
        if not shared:
            return getattr(self.ns, a['name'])
        return getattr(self.ns, '%s_%s_%s' % (a['name'], a['lt'], a['rt']))


_CACHE = {}


def lang_ctx(L, key=None):
    k = key or json.dumps(L, sort_keys=True)
    if k not in _CACHE:
        _CACHE[k] = LangCtx(L)
    return _CACHE[k]


# ---------------------------------------------------------------------------------------------
# inverse direction: a langspec dict (e.g. coreLang's langspec.json) -> Lang record in TJ normal form
def _ftxt(v):
    s = repr(float(v))
    return s if 'e' not in s and 'E' not in s else '%.10f' % float(v)


def _ttc_rec(t):
    """numbers travel as decimal TEXT (TLC has no floats); the printer emits them as FLOAT tokens"""
    if t is None:
        return {'type': 'none'}
    if t['type'] == 'number':
        return {'type': 'number', 'text': _ftxt(t['value'])}
    if t['type'] == 'function':
        return {'type': 'function', 'name': t['name'], 'astext': True,
                'arguments': [_ftxt(a) for a in t.get('arguments', [])]}
    return {'type': t['type'], 'lhs': _ttc_rec(t['lhs']), 'rhs': _ttc_rec(t['rhs'])}


def _ascii(s):
    return ''.join(c if 32 <= ord(c) < 127 and c not in '"\\' else '?' for c in str(s))


def _meta_rec(m):
    return [{'k': _ascii(k), 'v': _ascii(v)} for k, v in (m or {}).items()]


def record_of(spec):
    assets = []
    for a in spec['assets']:
        steps = []
        for s in a['attackSteps']:
            risk = s.get('risk')
            steps.append({
                'name': s['name'], 'kind': s['type'], 'tags': list(s.get('tags') or []),
                'risk': ({'present': True, 'c': bool(risk.get('isConfidentiality')), 'i': bool(risk.get('isIntegrity')),
                          'a': bool(risk.get('isAvailability'))} if risk else
                         {'present': False, 'c': False, 'i': False, 'a': False}),
                'ttc': _ttc_rec(s.get('ttc')), 'meta': _meta_rec(s.get('meta')),
                'requires': ({'present': True, 'exprs': s['requires']['stepExpressions']} if s.get('requires')
                             else {'present': False, 'exprs': []}),
                'reaches': ({'present': True, 'overrides': bool(s['reaches']['overrides']),
                             'exprs': s['reaches']['stepExpressions']} if s.get('reaches')
                            else {'present': False, 'overrides': False, 'exprs': []})})
        assets.append({'name': a['name'], 'category': a.get('category', 'Cat'), 'abstract': bool(a.get('isAbstract')),
                       'super': a['superAsset'] if a.get('superAsset') else 'NONE', 'meta': _meta_rec(a.get('meta')),
                       'vars': [{'name': v['name'], 'expr': v['stepExpression']} for v in a.get('variables', [])],
                       'steps': steps})
    assocs = []
    for x in spec['associations']:
        lm, rm = x['leftMultiplicity'], x['rightMultiplicity']
        assocs.append({'name': x['name'], 'lt': x['leftAsset'], 'lf': x['leftField'], 'lmin': lm['min'],
                       'lmax': -1 if lm['max'] is None else lm['max'], 'rt': x['rightAsset'], 'rf': x['rightField'],
                       'rmin': rm['min'], 'rmax': -1 if rm['max'] is None else rm['max'], 'meta': _meta_rec(x.get('meta'))})
    return {'id': spec['defines']['id'], 'version': spec['defines']['version'],
            'categories': [{'name': c['name'], 'meta': _meta_rec(c.get('meta'))} for c in spec.get('categories', [])],
            'assets': assets, 'assocs': assocs}
