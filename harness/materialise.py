"""Materialise what TLC produced: a Lang record (TJ normal form) becomes a langspec dict /
MAL text / .mar; nothing here computes an expectation."""
import copy
import io
import json
import os
import sys
import zipfile

REPO = os.environ.get('VERIF_REPO', '/repo')
if REPO not in sys.path:
    sys.path.insert(0, REPO)


def ttc(t):
    if t['type'] == 'none':
        return None
    if t['type'] == 'number':
        return {'type': 'number', 'value': t['value10'] / 10}
    if t['type'] == 'function':
        return {'type': 'function', 'name': t['name'], 'arguments': [a / 10 for a in t['arguments']]}
    return {'type': t['type'], 'lhs': ttc(t['lhs']), 'rhs': ttc(t['rhs'])}


def meta(ms):
    return {m['k']: m['v'] for m in ms}


def spec_of(L):
    """Lang record -> langspec dict in the layout of langspec.json (as malc / MalCompiler emit it)."""
    assets = []
    for a in L['assets']:
        steps = []
        for s in a['steps']:
            steps.append({
                'name': s['name'], 'meta': meta(s['meta']), 'type': s['kind'], 'tags': list(s['tags']),
                'risk': ({'isConfidentiality': s['risk']['c'], 'isIntegrity': s['risk']['i'],
                          'isAvailability': s['risk']['a']} if s['risk']['present'] else None),
                'ttc': ttc(s['ttc']),
                'requires': ({'overrides': True, 'stepExpressions': copy.deepcopy(s['requires']['exprs'])}
                             if s['requires']['present'] else None),
                'reaches': ({'overrides': s['reaches']['overrides'],
                             'stepExpressions': copy.deepcopy(s['reaches']['exprs'])}
                            if s['reaches']['present'] else None)})
        assets.append({'name': a['name'], 'meta': meta(a['meta']), 'category': a['category'],
                       'isAbstract': a['abstract'],
                       'superAsset': None if a['super'] == 'NONE' else a['super'],
                       'variables': [{'name': v['name'], 'stepExpression': copy.deepcopy(v['expr'])}
                                     for v in a['vars']],
                       'attackSteps': steps})
    assocs = [{'name': x['name'], 'meta': meta(x['meta']), 'leftAsset': x['lt'], 'leftField': x['lf'],
               'leftMultiplicity': {'min': x['lmin'], 'max': None if x['lmax'] == -1 else x['lmax']},
               'rightAsset': x['rt'], 'rightField': x['rf'],
               'rightMultiplicity': {'min': x['rmin'], 'max': None if x['rmax'] == -1 else x['rmax']}}
              for x in L['assocs']]
    return {'formatVersion': '1.0.0', 'defines': {'id': L['id'], 'version': L['version']},
            'categories': [{'name': c['name'], 'meta': meta(c['meta'])} for c in L['categories']],
            'assets': assets, 'associations': assocs}


def mar_bytes(spec):
    buf = io.BytesIO()
    with zipfile.ZipFile(buf, 'w') as z:
        z.writestr('langspec.json', json.dumps(spec))
    return buf.getvalue()


def class_name(L, ci):
    """Name of the generated association class for association index ci (1-based, as in the record)."""
    a = L['assocs'][ci - 1]
    shared = sum(1 for b in L['assocs'] if b['name'] == a['name']) > 1
    return '%s_%s_%s' % (a['name'], a['lt'], a['rt']) if shared else a['name']


class LangCtx:
    """Real toolbox objects for one language record."""

    def __init__(self, L, fresh_spec=True):
        from maltoolbox.language import LanguageGraph, LanguageClassesFactory
        self.L = L
        self.spec = spec_of(L)
        self.spec_snapshot = copy.deepcopy(self.spec)
        self.lang_graph = LanguageGraph(self.spec)
        self.factory = LanguageClassesFactory(self.lang_graph)
        self.ns = self.factory.ns

    def new_model(self, name='m'):
        from maltoolbox.model import Model
        return Model(name, self.factory)

    def assoc_class(self, ci):
        a = self.L['assocs'][ci - 1]
        shared = sum(1 for b in self.L['assocs'] if b['name'] == a['name']) > 1
        if not shared:
            return getattr(self.ns, a['name'])
        return getattr(self.ns, '%s_%s_%s' % (a['name'], a['lt'], a['rt']))


_CACHE = {}


def lang_ctx(L, key=None):
    k = key or json.dumps(L, sort_keys=True)
    if k not in _CACHE:
        _CACHE[k] = LangCtx(L)
    return _CACHE[k]
