"""A recording stand-in for py2neo.Graph: stores the Subgraph handed to the transaction and answers the two fixed
Cypher queries of maltoolbox.ingestors.neo4j.get_model by evaluating their patterns on what was stored
(relationship uniqueness within a pattern included). Trusted part of the C19 check."""


class _Result:
    def __init__(self, rows):
        self.rows = rows

    def data(self):
        return self.rows


class _Tx:
    def __init__(self, g):
        self.g = g

    def create(self, subgraph):
        self.g.pending.append(subgraph)


class FakeGraph:
    STORE = {}          # dbname -> {'nodes': [...], 'rels': [...]}
    CREATED = []        # every Subgraph handed to a transaction, in order

    def __init__(self, uri=None, user=None, password=None, name=None, **kw):
        self.name = name
        self.pending = []
        FakeGraph.STORE.setdefault(name, {'nodes': [], 'rels': []})

    def delete_all(self):
        FakeGraph.STORE[self.name] = {'nodes': [], 'rels': []}

    def begin(self):
        return _Tx(self)

    def commit(self, tx):
        st = FakeGraph.STORE[self.name]
        for sg in self.pending:
            FakeGraph.CREATED.append(sg)
            for n in sg.nodes:
                if not any(n is m for m in st['nodes']):
                    st['nodes'].append(n)
            for r in sg.relationships:
                st['rels'].append(r)
        self.pending = []

    def run(self, query):
        st = FakeGraph.STORE[self.name]
        q = ' '.join(query.split())
        if q == 'MATCH (a) WHERE a.type IS NOT NULL RETURN DISTINCT a':
            return _Result([{'a': n} for n in st['nodes'] if dict(n).get('type') is not None])
        if q == 'MATCH (a)-[r1]->(b),(a)<-[r2]-(b) WHERE a.type IS NOT NULL RETURN DISTINCT a, r1, r2, b':
            rows = []
            for r1 in st['rels']:
                for r2 in st['rels']:
                    if r1 is r2:
                        continue
                    a, b = r1.start_node, r1.end_node
                    if r2.end_node is a and r2.start_node is b and dict(a).get('type') is not None:
                        rows.append({'a': a, 'r1': r1, 'r2': r2, 'b': b})
            return _Result(rows)
        raise NotImplementedError('query not supported by the stand-in: ' + query)


def install():
    import maltoolbox.ingestors.neo4j as neo
    neo.Graph = FakeGraph
    FakeGraph.STORE = {}
    FakeGraph.CREATED = []
    return neo
