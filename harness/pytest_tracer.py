"""pytest plugin (-p harness.pytest_tracer): runs the repository's own test-suite under the tracer.
Active only when MALTOOLBOX_VERIF_TRACE=1; writes the traces (with each model's language specification) to
$MALTOOLBOX_VERIF_TRACE_OUT at session end."""
import json
import os

ACTIVE = os.environ.get('MALTOOLBOX_VERIF_TRACE') == '1'

if ACTIVE:
    from harness.tracer import TRACER
    from harness.gtracer import GTRACER
    TRACER.install()
    GTRACER.install()

    def pytest_runtest_setup(item):
        TRACER.current_label = item.nodeid
        GTRACER.current_label = item.nodeid

    def pytest_sessionfinish(session, exitstatus):
        out = os.environ.get('MALTOOLBOX_VERIF_TRACE_OUT')
        if not out:
            return
        traces = []
        specs = {}
        for n, k in enumerate(TRACER.order):
            tr = TRACER.traces[k]
            if not tr.events:
                continue
            spec = tr.model.lang_classes_factory.lang_graph._lang_spec
            key = '%s-%s' % (spec['defines']['id'], spec['defines']['version'])
            specs.setdefault(key, spec)
            traces.append({'id': n + 1, 'label': tr.label, 'lang': key, 'events': tr.events})
        with open(out, 'w') as f:
            json.dump({'traces': traces, 'specs': specs, 'gtraces': GTRACER.dump()}, f)
