"""Generic replay engine: TLC-generated cases (JSON lines) are handed to a pool of worker processes,
each of which drives the real maltoolbox objects through an adapter and compares the projection with
the observation the specification expects. The only oracle is what TLC printed."""
import hashlib
import importlib
import json
import multiprocessing as mp
import os
import signal
import sys
import time
import traceback

VERIF = os.path.dirname(os.path.dirname(os.path.abspath(__file__)))
WORK = os.path.join(VERIF, '.work')


class CaseTimeout(Exception):
    pass


def _alarm(signum, frame):
    raise CaseTimeout()


_ADAPTER = None
_TIMEOUTS = [0]
_STOP = None        # shared flag: the verdict is clear (hundreds of divergences), workers skip what is still queued


_REPO = ['/repo']


def _init_worker(adapter_mod, adapter_args, repo, stop=None):
    _REPO[0] = repo
    global _ADAPTER, _STOP
    _STOP = stop
    os.environ['VERIF_REPO'] = repo
    cwd = os.path.join(os.environ.get('VERIF_RUNDIR') or WORK, 'cwd-%d' % os.getpid())
    os.makedirs(cwd, exist_ok=True)
    os.chdir(cwd)
    if repo not in sys.path:
        sys.path.insert(0, repo)
    if VERIF not in sys.path:
        sys.path.insert(0, VERIF)
    import logging
    logging.disable(logging.CRITICAL)
    mod = importlib.import_module(adapter_mod)
    _ADAPTER = mod.Adapter(**(adapter_args or {}))
    signal.signal(signal.SIGALRM, _alarm)


def _run_batch(lines):
    out = {'cases': 0, 'steps': 0, 'div': [], 'inconclusive': 0, 'nontrivial': set(), 'samples': [],
           'features': {}, 'errors': []}
    for raw in lines:
        try:
            case = json.loads(json.loads(raw)) if isinstance(raw, str) else raw
        except Exception as e:  # a broken line is a machinery problem, reported upward
            out['errors'].append('unparsable TLC line: %r' % (raw[:120],))
            continue
        limit = int(getattr(_ADAPTER, 'case_timeout', 20))
        if _STOP is not None and _STOP.value:
            out['skipped_clear'] = out.get('skipped_clear', 0) + 1
            continue
        if _TIMEOUTS[0] >= 3:
            out['skipped'] = out.get('skipped', 0) + 1    # this tree hangs: three timeouts are reported, the rest is skipped
            continue
        if _TIMEOUTS[0] >= 1:
            limit = max(2, limit // 8)      # the tree under test hangs: do not spend the full limit on every further case
        signal.alarm(limit)
        try:
            r = _ADAPTER.run_case(case)
        except CaseTimeout:
            _TIMEOUTS[0] += 1
            r = _ADAPTER.on_timeout(case)
        except Exception as e:
            signal.alarm(0)
            # An exception raised INSIDE the tree under test (innermost frame in its sources) on a case the
            # specification declares valid is a divergence of the code; anything else is a harness problem.
            tb = traceback.extract_tb(e.__traceback__)
            inner = tb[-1].filename if tb else ''
            own = [f for f in tb if os.path.realpath(f.filename).startswith(os.path.realpath(_REPO[0]) + os.sep)]
            if own and (os.path.realpath(inner).startswith(os.path.realpath(_REPO[0]) + os.sep) or 'site-packages' in inner):
                r = {'steps': 1, 'div': [{'kind': 'code_raised', 'action': 'call', 'component': 'exception', 'features': [],
                                          'detail': '%s: %s' % (type(e).__name__, str(e)[:300]),
                                          'where': ['%s:%d %s' % (os.path.basename(f.filename), f.lineno, f.name) for f in tb[-4:]],
                                          'case': {k: case[k] for k in list(case)[:6]} if isinstance(case, dict) else None,
                                          'adapter': type(_ADAPTER).__module__}]}
            else:
                out['errors'].append('adapter crashed: %s\n%s' % (e, traceback.format_exc()[-1500:]))
                continue
        finally:
            signal.alarm(0)
        out['cases'] += 1
        out['steps'] += r.get('steps', 1)
        if r.get('inconclusive'):
            out['inconclusive'] += 1
        for d in r.get('div', []):
            if len(out['div']) < 400:
                out['div'].append(d)
        if r.get('nontrivial'):
            out['nontrivial'].add(r['nontrivial'])
        for f in r.get('features', []):
            out['features'][f] = out['features'].get(f, 0) + 1
        if len(out['samples']) < 2 and r.get('sample') is not None:
            out['samples'].append(r['sample'])
    out['nontrivial'] = list(out['nontrivial'])
    return out


class Engine:
    def __init__(self, adapter_mod, adapter_args=None, workers=None, batch=100, repo=None):
        self.repo = repo or os.environ.get('VERIF_REPO', '/repo')
        self.workers = workers or max(2, (os.cpu_count() or 4) - 4)
        ctx = mp.get_context('fork')
        self.stop = ctx.Value('b', 0)
        self.pool = ctx.Pool(self.workers, _init_worker, (adapter_mod, adapter_args, self.repo, self.stop))
        self.batch = batch
        self.buf = []
        self.pending = []
        self.tot = {'cases': 0, 'steps': 0, 'div': [], 'inconclusive': 0, 'nontrivial': set(), 'samples': [],
                    'features': {}, 'errors': []}

    def feed(self, item):
        while self.pending and self.pending[0].ready():
            self._collect(self.pending.pop(0))
        if len(self.tot['div']) >= 300 or self.tot.get('skipped_after_timeouts', 0) > 0:
            self.stop.value = 1
            self.tot['skipped_after_many_divergences'] = self.tot.get('skipped_after_many_divergences', 0) + 1
            return          # hundreds of divergences already: the verdict is clear, save the time
        self.buf.append(item)
        if len(self.buf) >= self.batch:
            self._flush()
        # keep memory bounded
        while len(self.pending) > self.workers * 6:
            self._collect(self.pending.pop(0))

    def _flush(self):
        if self.buf:
            self.pending.append(self.pool.apply_async(_run_batch, (self.buf,)))
            self.buf = []

    def _collect(self, ar):
        r = ar.get(timeout=1800)
        t = self.tot
        t['cases'] += r['cases']
        t['steps'] += r['steps']
        t['inconclusive'] += r['inconclusive']
        t['nontrivial'].update(r['nontrivial'])
        for d in r['div']:
            if len(t['div']) < 2000:
                t['div'].append(d)
        for f, n in r['features'].items():
            t['features'][f] = t['features'].get(f, 0) + n
        for s in r['samples']:
            if len(t['samples']) < 3:
                t['samples'].append(s)
        t['errors'].extend(r['errors'][:5])
        t['skipped_after_timeouts'] = t.get('skipped_after_timeouts', 0) + r.get('skipped', 0)
        t['skipped_after_many_divergences'] = t.get('skipped_after_many_divergences', 0) + r.get('skipped_clear', 0)

    def finish(self, drain_timeout=900):
        """Wait for the queued batches. A tree under test that makes every case slow (not hanging, not failing) could keep
        the workers busy for hours after TLC has finished: after `drain_timeout` seconds the pool is terminated and the
        run goes on with what was replayed (`drain_timed_out`); the caller turns that into a machinery failure unless
        divergences were already found."""
        import time as _time
        self._flush()
        deadline = _time.time() + drain_timeout
        timed_out = False
        for ar in self.pending:
            if timed_out:
                break
            try:
                ar.wait(max(1.0, deadline - _time.time()))
                if not ar.ready():
                    timed_out = True
                    break
                self._collect(ar)
            except mp.TimeoutError:
                timed_out = True
        self.pending = []
        if timed_out:
            self.tot['drain_timed_out'] = True
            self.pool.terminate()
        else:
            self.pool.close()
        self.pool.join()
        return self.tot


def case_hash(obj):
    return hashlib.sha1(json.dumps(obj, sort_keys=True, default=str).encode()).hexdigest()[:16]
