"""Adapter (C08): labelled graphs with their greatest-fixed-point labelling -> real AttackGraph built through
add_node in EVERY node order, calculate_viability_and_necessity, flags compared for every node."""
import itertools
import json
import random


def build(case, order, g=None, nodes=None):
    """adds the nodes in `order` (to a new graph, or to an existing one) and links every edge whose two ends exist and
    at least one of them is new"""
    from maltoolbox.attackgraph import AttackGraph, AttackGraphNode
    fresh = g is None
    if fresh:
        g = AttackGraph()
        nodes = {}
    old_nodes = set(nodes)
    for i in order:
        kind = case['kind'][i - 1]
        n = AttackGraphNode(type=kind, name='n%d' % i)
        if kind == 'defense':
            n.defense_status = case['st'][i - 1] / 10
        if kind in ('exist', 'notExist'):
            n.existence_status = case['st'][i - 1] == 10
        if kind == 'defense' and case.get('supp'):
            n.tags = ['suppress']          # suppression concerns the defense surface, not viability / necessity
        if case['dist'][i - 1]:
            # any named distribution other than Enabled / Disabled
            n.ttc = [{'type': 'function', 'name': 'Exponential', 'arguments': [0.1]},
                     {'type': 'function', 'name': 'Bernoulli', 'arguments': [0.5]},
                     {'type': 'function', 'name': 'Gamma', 'arguments': [1.5, 2.0]}][i % 3]
        elif kind == 'defense':
            n.ttc = {'type': 'function', 'name': 'Enabled' if case['st'][i - 1] == 10 else 'Disabled', 'arguments': []}
        nodes[i] = n
        g.add_node(n)
    pos = {x: k for k, x in enumerate(sorted(old_nodes) + list(order))}
    for c in sorted(nodes, key=lambda x: pos[x]):
        for p in sorted((q for q in case['par'][c - 1] if q in nodes), key=lambda x: pos[x]):
            if c in old_nodes and p in old_nodes:
                continue                      # linked in the first stage
            nodes[p].children.append(nodes[c])
            nodes[c].parents.append(nodes[p])
    return g, nodes


class Adapter:
    case_timeout = 30

    def __init__(self, max_orders=24, seed=1, **kw):
        self.max_orders = max_orders
        self.rng = random.Random(seed)

    def on_timeout(self, case):
        return {'steps': 1, 'div': [{'kind': 'timeout', 'action': 'Analyse', 'component': 'timeout',
                                     'features': sorted(case['flags']), 'case': case, 'adapter': 'harness.replay_apriori'}]}

    def run_case(self, case):
        from maltoolbox.attackgraph.analyzers.apriori import calculate_viability_and_necessity
        n = case['n']
        if n > 6:
            # larger graphs (Gen_AprioriBig families): stored order ascending, descending, evens-then-odds, inside-out
            # and a few random shuffles instead of every permutation
            ident = list(range(1, n + 1))
            perms = [tuple(ident), tuple(reversed(ident)), tuple(ident[1::2] + ident[0::2]),
                     tuple(x for pair in zip(ident[n // 2:], reversed(ident[:n // 2])) for x in pair) +
                     ((ident[-1],) if n % 2 else ())]
            for _ in range(3):
                sh = ident[:]
                self.rng.shuffle(sh)
                perms.append(tuple(sh))
            assert all(sorted(o) == ident for o in perms)
        else:
            perms = list(itertools.permutations(range(1, n + 1)))
            if len(perms) > self.max_orders:
                perms = [perms[0], perms[-1]] + self.rng.sample(perms[1:-1], self.max_orders - 2)
        res = {'steps': 0, 'div': [], 'features': sorted(case['flags'])}
        results = {}
        for order in perms:
            g, nodes = build(case, list(order))
            try:
                calculate_viability_and_necessity(g)
            except RecursionError:
                res['div'].append(self.div(case, 'recursion', {'order': order}, case['flags']))
                return res
            res['steps'] += 1
            results[order] = ([bool(nodes[i].is_viable) for i in range(1, n + 1)],
                              [bool(nodes[i].is_necessary) for i in range(1, n + 1)])
        wrongV = [o for o, r in results.items() if r[0] != case['V']]
        wrongN = [o for o, r in results.items() if r[1] != case['N']]
        dep = len({json.dumps(r) for r in results.values()}) > 1
        feats = sorted(set(case['flags']) | ({'order_dependent'} if dep else set()))
        if wrongV:
            o = wrongV[0]
            res['div'].append(self.div(case, 'viability', {'order': o, 'want': case['V'], 'got': results[o][0],
                                                           'orders_wrong': len(wrongV), 'orders': len(results)}, feats))
        elif wrongN:
            o = wrongN[0]
            res['div'].append(self.div(case, 'necessity', {'order': o, 'want': case['N'], 'got': results[o][1],
                                                           'orders_wrong': len(wrongN), 'orders': len(results)}, feats))
        # NOT checked: re-analysis of a graph that already carries labels (analyse, extend, analyse again). The
        # specification's lemma Gen_Apriori!ExtensionLemma says what the result would have to be, but the pinned
        # implementation only propagates on change and leaves new descendants of already-labelled steps at their
        # defaults; the property quantifies over graphs whose labels are at their initial value (DESIGN.md section 14).
        if any(case['par'][i] for i in range(n)):
            res['nontrivial'] = json.dumps([case['kind'], case['par'], case['st'], case['dist'], case.get('supp')])
        if n > 6:
            # keep evidence and divergence records small: the family parameters identify the graph
            res['sample'] = {'n': n, 'family': case.get('family')}
            if res.get('nontrivial'):
                res['nontrivial'] = json.dumps(case.get('family'), sort_keys=True)
            return res
        res['sample'] = {k: case[k] for k in ('n', 'kind', 'par', 'st', 'dist', 'V', 'N')}
        return res

    def div(self, case, comp, detail, feats):
        return {'kind': 'divergence', 'action': 'Analyse', 'component': comp, 'features': sorted(feats),
                'detail': self.small(detail), 'case': {k: case[k] for k in ('n', 'kind', 'par', 'st', 'dist', 'V', 'N', 'flags', 'family') if k in case},
                'adapter': 'harness.replay_apriori'}


def _small(detail):
    """for large graphs the report names the first nodes that differ instead of listing both label vectors"""
    if isinstance(detail.get('want'), list) and len(detail['want']) > 12:
        diff = [i + 1 for i, (a, b) in enumerate(zip(detail['want'], detail['got'])) if a != b]
        head = list(detail.get('order', ()))[:8]
        detail = {k: v for k, v in detail.items() if k not in ('want', 'got', 'order')}
        detail.update(nodes_differing=len(diff), first_differing=diff[:8], order_head=head)
    return detail


Adapter.small = staticmethod(_small)


def replay_divergence(d):
    ad = Adapter()
    r = ad.run_case(d['case'])
    return bool(r['div']), {'divergences': [{k: v for k, v in x.items() if k in ('component', 'detail', 'features')}
                                            for x in r['div']]}
