"""Adapter (C16): generation is deterministic and does not disturb its inputs. For a (language, model) pair from the
specification's generator: the serialised graph must be textually identical in the same process (twice), in fresh
processes with different PYTHONHASHSEED values, through the direct API and through create_attack_graph from files
(.mar + json / yml, and .mal when MAL text is supplied); generation + analysis leave the model's serialised form and the
language specification unchanged; two graphs share no node."""
import copy
import json
import os
import subprocess
import sys

from harness import materialise
from harness.replay_graph import build_model

HERE = os.path.dirname(os.path.abspath(__file__))


class Adapter:
    case_timeout = 120

    def __init__(self, langs=None, hashseeds=(0, 1, 2), toks=None, min_edges=0, **kw):
        self.min_edges = min_edges
        self.langs = langs or {}
        self.hashseeds = hashseeds
        self.toks = toks or {}

    def on_timeout(self, case):
        return {'steps': 1, 'div': [{'kind': 'timeout', 'action': 'Generate', 'component': 'timeout', 'features': [],
                                     'case': {'lang': case['lang']}, 'adapter': 'harness.replay_determinism'}]}

    def run_case(self, case):
        from maltoolbox.attackgraph import AttackGraph
        from maltoolbox.attackgraph.analyzers.apriori import calculate_viability_and_necessity
        from maltoolbox.model import AttackerAttachment
        lang = case['lang']
        L = self.langs[lang] if isinstance(lang, str) else lang
        res = {'steps': 0, 'div': [], 'features': []}
        if len(case['exp']['hi']) < self.min_edges:
            return res          # too small to tell anything about ordering: skipped (not counted as non-trivial)

        def div(comp, detail):
            if len(res['div']) < 3:
                res['div'].append({'kind': 'divergence', 'action': 'Generate', 'component': comp, 'features': [],
                                   'detail': detail, 'case': {'lang': lang if isinstance(lang, str) else L.get('id'),
                                                              'assets': case['assets'], 'assocs': case['assocs']},
                                   'adapter': 'harness.replay_determinism'})
        ctx = materialise.LangCtx(L)          # fresh language objects: the specification dict is ours to snapshot
        m, objs = build_model(ctx, case['assets'], case['assocs'])
        if case['assets']:
            t = AttackerAttachment(name='atk')
            m.add_attacker(t)
            first = objs[case['assets'][0]['h']]
            steps = [s.name for s in ctx.lang_graph.get_asset_by_name(str(first.type)).attack_steps]
            if steps:
                t.add_entry_point(first, steps[0])
        snap_model = json.dumps(m._to_dict(), sort_keys=True, default=str)
        snap_spec = copy.deepcopy(ctx.spec)

        def gen():
            g = AttackGraph(ctx.lang_graph, m)
            g.attach_attackers()
            calculate_viability_and_necessity(g)
            return g
        g1 = gen()
        g2 = gen()
        res['steps'] += 2
        s1 = json.dumps(g1._to_dict(), default=str)
        s2 = json.dumps(g2._to_dict(), default=str)
        if s1 != s2:
            div('same_process_differs', {})
        if {id(n) for n in g1.nodes} & {id(n) for n in g2.nodes}:
            div('graphs_share_nodes', {})
        # interleaved: both graphs are generated first, then attackers are attached and the analysis is run on each;
        # every reference of a graph stays inside that graph, and the result is the same as graph-by-graph
        ga = AttackGraph(ctx.lang_graph, m)
        gb = AttackGraph(ctx.lang_graph, m)
        ga.attach_attackers()
        gb.attach_attackers()
        calculate_viability_and_necessity(ga)
        calculate_viability_and_necessity(gb)
        res['steps'] += 2
        for nm, g in (('first', ga), ('second', gb)):
            own = {id(n) for n in g.nodes}
            own_atk = {id(a) for a in g.attackers}
            foreign = [a.name for a in g.attackers if any(id(n) not in own for n in list(a.reached_attack_steps) + list(a.entry_points))]
            foreign += [n.full_name for n in g.nodes if any(id(a) not in own_atk for a in n.compromised_by)
                        or any(id(c) not in own for c in list(n.children) + list(n.parents))]
            if foreign:
                div('interleaved_graphs_share_objects', {'graph': nm, 'where': foreign[:5]})
                break
            if json.dumps(g._to_dict(), default=str) != s1:
                div('interleaved_generation_differs', {'graph': nm})
                break
        # regenerating a graph in place (attackers attached before and after) is generating it again
        if not res['div']:
            g1.regenerate_graph()
            g1.attach_attackers()
            calculate_viability_and_necessity(g1)
            res['steps'] += 1
            if json.dumps(g1._to_dict(), default=str) != s1:
                div('regenerated_graph_differs', {})
        if json.dumps(m._to_dict(), sort_keys=True, default=str) != snap_model:
            div('model_changed', {})
        if ctx.spec != snap_spec or ctx.lang_graph._lang_spec != snap_spec:
            div('language_specification_changed', {})
        # fresh processes, files
        d = os.getcwd()
        mar = os.path.join(d, 'l-%d.mar' % os.getpid())
        with open(mar, 'wb') as f:
            f.write(materialise.mar_bytes(materialise.spec_of(L)))
        mj = os.path.join(d, 'm-%d.json' % os.getpid())
        my = os.path.join(d, 'm-%d.yml' % os.getpid())
        m.save_to_file(mj)
        m.save_to_file(my)
        runs = []
        paths = [(mar, mj, 'api'), (mar, my, 'wrapper'), (mar, mj, 'wrapper')]
        mal = None
        if isinstance(lang, str) and lang in self.toks:
            # the same language as MAL text (printed by the specification's Tok), compiled by the toolbox itself
            from harness.replay_syntax import render
            mal = os.path.join(d, 'l-%d.mal' % os.getpid())
            with open(mal, 'w', encoding='utf-8') as f:
                f.write(render(self.toks[lang]) + '\n')
            paths.append((mal, mj, 'wrapper'))
        for hs in self.hashseeds:
            for (lf, mf, mode) in paths:
                env = dict(os.environ, PYTHONHASHSEED=str(hs), VERIF_REPO=os.environ.get('VERIF_REPO', '/repo'))
                p = subprocess.run([sys.executable, os.path.join(HERE, 'gen_once.py'), lf, mf, mode], cwd=d, env=env,
                                   stdout=subprocess.PIPE, stderr=subprocess.PIPE, text=True, timeout=100)
                res['steps'] += 1
                if p.returncode != 0:
                    div('fresh_process_failed', {'hashseed': hs, 'mode': mode, 'stderr': p.stderr[-400:]})
                    break
                runs.append(((hs, mode, os.path.basename(lf).split('.')[-1] + '+' + os.path.basename(mf).split('.')[-1]), p.stdout))
        # the command-line entry point: `python -m maltoolbox attack-graph generate <model> <lang>` leaves the graph in the
        # configured attack-graph file (relative to the working directory): same content once more
        if not res['div']:
            import shutil
            cdir = os.path.join(d, 'cli-%d' % os.getpid())
            shutil.rmtree(cdir, ignore_errors=True)
            os.makedirs(cdir)
            env = dict(os.environ, PYTHONHASHSEED=str(self.hashseeds[-1]),
                       PYTHONPATH=os.environ.get('VERIF_REPO', '/repo') + os.pathsep + os.environ.get('PYTHONPATH', ''))
            p = subprocess.run([sys.executable, '-m', 'maltoolbox', 'attack-graph', 'generate', mj, mar], cwd=cdir, env=env,
                               stdout=subprocess.PIPE, stderr=subprocess.STDOUT, text=True, timeout=100)
            res['steps'] += 1
            import glob
            outs = glob.glob(os.path.join(cdir, '**', 'attackgraph.*'), recursive=True)
            if p.returncode != 0 or not outs:
                div('cli_generate_fails', {'rc': p.returncode, 'output': p.stdout[-300:]})
            else:
                if outs[0].endswith('.json'):
                    loaded = json.load(open(outs[0], encoding='utf-8'))
                else:
                    import yaml
                    loaded = yaml.safe_load(open(outs[0], encoding='utf-8'))
                # the configured file may be YAML (keys sorted by the writer): content equality
                a = json.loads(json.dumps(loaded, sort_keys=True, default=str))
                b = json.loads(json.dumps(json.loads(s1), sort_keys=True))
                if a != b:
                    from harness.replay_syntax import first_diff
                    fd = first_diff(b, a)
                    div('cli_generate_differs', {'file': os.path.basename(outs[0]), 'at': fd[0] if fd else None,
                                                 'api': json.dumps(fd[1], default=str)[:200] if fd else None,
                                                 'cli': json.dumps(fd[2], default=str)[:200] if fd else None})
            shutil.rmtree(cdir, ignore_errors=True)
        for f in (mar, mj, my, mal):
            if f and os.path.exists(f):
                os.unlink(f)
        for key, out in runs:
            if out != s1:
                a = json.loads(out)
                b = json.loads(s1)
                where = 'attackers' if a.get('attack_steps') == b.get('attack_steps') else 'attack_steps'
                if json.dumps(a, sort_keys=True) == json.dumps(b, sort_keys=True):
                    where = 'order_only'
                div('fresh_process_differs', {'config': key, 'where': where})
                break
        if case['exp']['hi']:
            res['nontrivial'] = json.dumps([lang if isinstance(lang, str) else L.get('id'), case['assets'], case['assocs']], sort_keys=True)
        res['sample'] = {'lang': lang if isinstance(lang, str) else L.get('id'), 'assets': len(case['assets']),
                         'configs': ['same process x2'] + ['%s/%s/hashseed=%s' % (k[1], k[2], k[0]) for k, _ in runs][:12]}
        return res


def replay_divergence(d):
    from harness import common
    langs = common.dump_langs()
    case = {'lang': d['case']['lang'], 'assets': d['case']['assets'], 'assocs': d['case']['assocs'], 'exp': {'hi': [1]}}
    r = Adapter(langs=langs).run_case(case)
    return bool(r['div']), {'divergences': [{k: v for k, v in x.items() if k in ('component', 'detail')} for x in r['div']]}
