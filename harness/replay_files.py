"""Adapter (C07 hand-written files, C18): A MODEL FILE IS A BEHAVIOUR. Loading a file adds its assets in file order with
the id and the name the file states, so a file listing the assets (id_1, name_1, T_1) ... (id_n, name_n, T_n) denotes the
ModelSM behaviour AddAsset(T_i, name_i, id_i, allowDup) for i = 1..n - including files whose names repeat (the later
asset is renamed by the documented policy) and files whose ids are in any order. TLC enumerates those behaviours
(Gen_Model with explicit ids and a small name pool); the adapter writes the file in the native layout (json, yml) and
in the two legacy layouts (0.0.39 json / yml, .sCAD) and compares every loaded model with the final ModelSM state."""
import json
import os

import yaml

from harness import materialise
from harness.replay_legacy import emit_0039, emit_scad

NOID = -99


class Adapter:
    case_timeout = 40

    def __init__(self, langs=None, formats=('native', 'legacy'), **kw):
        self.langs = langs or {}
        self.formats = formats
        self.seen = set()

    def on_timeout(self, case):
        return {'steps': 1, 'div': [{'kind': 'timeout', 'action': 'LoadFile', 'component': 'timeout', 'features': [],
                                     'case': {'lang': case['lang']}, 'adapter': 'harness.replay_files'}]}

    def run_case(self, case):
        from maltoolbox.model import Model
        from maltoolbox.translators import updater, securicad
        lang = case['lang']
        L = self.langs[lang]
        ctx = materialise.lang_ctx(L, key=lang)
        res = {'steps': 0, 'div': [], 'features': []}
        hist = case['hist']
        adds = [s for s in hist if s['act']['op'] == 'AddAsset']
        rest = [s for s in hist if s['act']['op'] != 'AddAsset']
        if not adds or any(s['act']['res'] != 'ok' for s in hist) \
                or any(s['act']['reqName'] == 'NONE' or s['act']['reqId'] == NOID for s in adds) \
                or any(s['act']['op'] not in ('AddAssociation', 'SetDefense') for s in rest) \
                or hist[:len(adds)] != adds:
            return res                      # not a file: accepted adds with stated id and name, then defenses / associations
        entries = [(s['act']['reqId'], s['act']['reqName'], s['act']['T']) for s in adds]
        hid = {s['act']['h']: s['act']['reqId'] for s in adds}
        defs = {}
        assocs = []
        for s in rest:
            a = s['act']
            if a['op'] == 'SetDefense':
                defs.setdefault(hid[a['h']], {})[a['d']] = a['v'] / 10
            else:
                decl = L['assocs'][a['cls'] - 1]
                assocs.append({materialise.class_name(L, a['cls']): {decl['lf']: [hid[x] for x in a['l']], decl['rf']: [hid[x] for x in a['r']]}})
        if rest and 'native' not in self.formats:
            return res                      # the legacy layouts only carry pairwise links: files with links are C07's
        key = lang + json.dumps([entries, defs, assocs], sort_keys=True)
        if key in self.seen:
            return res
        self.seen.add(key)
        want = {a['id']: {'name': a['name'], 'type': a['type']} for a in case['final']}
        want_defs = {a['id']: dict(a['def']) if isinstance(a['def'], dict) else {} for a in case['final']}
        fin_id = {a['h']: a['id'] for a in case['final']}
        want_assocs = sorted((x['cls'], sorted(fin_id[m] for m in x['l']), sorted(fin_id[m] for m in x['r']))
                             for x in hist[-1]['obs']['assocs'])
        names = [e[1] for e in entries]
        feats = set()
        if len(set(names)) != len(names):
            feats.add('repeated_name_in_file')
        if [e[0] for e in entries] != sorted(e[0] for e in entries):
            feats.add('ids_not_ascending')
        if any(s['act'].get('polName') for s in hist):
            feats.add('renamed_on_load')
        res['features'] = sorted(feats)

        def div(kind, comp, detail):
            if len(res['div']) < 3:
                res['div'].append({'kind': 'divergence', 'action': 'LoadFile', 'component': comp, 'features': sorted(feats | {kind}),
                                   'detail': detail, 'case': {'lang': lang, 'file_entries': entries}, 'full_case': case,
                                   'adapter': 'harness.replay_files'})
        d = os.getcwd()
        loads = []
        if 'native' in self.formats:
            doc = {'metadata': {'name': 'handwritten', 'langVersion': L['version'], 'langID': L['id']},
                   'assets': {str(i): dict({'name': n, 'type': t}, **({'defenses': defs[i]} if i in defs else {})) for (i, n, t) in entries},
                   'associations': assocs, 'attackers': {}}
            for ext in ('json', 'yml'):
                p = os.path.join(d, 'file-%d.%s' % (os.getpid(), ext))
                with open(p, 'w', encoding='utf-8') as f:
                    if ext == 'json':
                        json.dump(doc, f)
                    else:
                        yaml.safe_dump(doc, f, sort_keys=False)
                loads.append(('native_' + ext, lambda p=p: Model.load_from_file(p, ctx.factory), p))
        if 'legacy' in self.formats:
            ab = {'assets': [{'id': i, 'name': n, 'type': t, 'def': {}} for (i, n, t) in entries], 'links': [], 'atk': [], 'entry': []}
            doc = emit_0039(L, ab)
            for ext in ('json', 'yml'):
                p = os.path.join(d, 'lfile-%d.%s' % (os.getpid(), ext))
                with open(p, 'w', encoding='utf-8') as f:
                    if ext == 'json':
                        json.dump(doc, f)
                    else:
                        yaml.safe_dump(doc, f, sort_keys=False)
                loads.append(('v0_0_39_' + ext, lambda p=p: updater.load_model_from_older_version(p, ctx.factory, '0.0.39'), p))
            if all(i >= 0 for (i, n, t) in entries):
                p = os.path.join(d, 'lfile-%d.sCAD' % os.getpid())
                with open(p, 'wb') as f:
                    f.write(emit_scad(L, ab))
                loads.append(('scad', lambda p=p: securicad.load_model_from_scad_archive(p, ctx.lang_graph, ctx.factory), p))
        for kind, fn, path in loads:
            res['steps'] += 1
            try:
                m = fn()
            except Exception as e:
                div(kind, 'load_raises', {'error': repr(e)[:300]})
                continue
            finally:
                if os.path.exists(path):
                    os.unlink(path)
            if m is None:
                div(kind, 'load_returned_none', {})
                continue
            got = {int(a.id): {'name': str(a.name), 'type': str(a.type)} for a in m.assets}
            if got != want:
                div(kind, 'assets', {'want': want, 'got': got})
                continue
            if rest:
                gd = {int(a.id): {k: int(round(float(v) * 10)) for k, v in m.get_asset_defenses(a, include_defaults=True).items()} for a in m.assets}
                if gd != want_defs:
                    div(kind, 'defenses', {'want': want_defs, 'got': gd})
                    continue
                cls_index = {materialise.class_name(L, i + 1): i + 1 for i in range(len(L['assocs']))}
                ga = []
                for x in m.associations:
                    lf, rf = [str(k) for k in m.get_association_field_names(x)]
                    ga.append((cls_index.get(type(x).__name__, -1), sorted(int(y.id) for y in getattr(x, lf)), sorted(int(y.id) for y in getattr(x, rf))))
                if sorted(ga) != [tuple(w) for w in want_assocs] and sorted(ga) != want_assocs:
                    div(kind, 'associations', {'want': want_assocs, 'got': sorted(ga)})
        if len(entries) >= 2 or rest:
            res['nontrivial'] = key
        res['sample'] = {'lang': lang, 'file_entries': entries}
        return res


def replay_divergence(d):
    from harness import common
    langs = common.dump_langs()
    r = Adapter(langs=langs).run_case(d['full_case'])
    return bool(r['div']), {'divergences': [{k: v for k, v in x.items() if k in ('component', 'detail', 'features')} for x in r['div']]}
