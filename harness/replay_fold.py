"""Adapter (C03): languages of the InheritFamily with Fold(L, T) per type and a sequence of lookups / regenerations /
attack-graph generations -> real LanguageGraph; every answer compared with Fold, the caller's dict with a snapshot."""
import copy
import json

from harness import materialise


def norm_step(name, st):
    r = st.get('reaches')
    return {'name': name, 'kind': st['type'], 'ttc': st.get('ttc'), 'tags': list(st.get('tags') or []),
            'present': bool(r), 'exprs': list(r['stepExpressions']) if r else []}


def want_steps(fold):
    return [{'name': s['name'], 'kind': s['kind'], 'ttc': materialise.ttc(s['ttc']), 'tags': list(s['tags']),
             'present': s['present'], 'exprs': list(s['exprs'])} for s in fold]


class Adapter:
    case_timeout = 30

    def __init__(self, **kw):
        pass

    def on_timeout(self, case):
        return {'steps': 1, 'div': [{'kind': 'timeout', 'action': 'Lookup', 'component': 'timeout', 'features': [],
                                     'case': {'lang': case['lang'], 'ops': case['ops']}, 'adapter': 'harness.replay_fold'}]}

    def answer(self, lg, T):
        if hasattr(lg, '_get_attacks_for_asset_type'):
            d = lg._get_attacks_for_asset_type(T)
            return [norm_step(k, v) for k, v in d.items()]
        a = lg.get_asset_by_name(T)
        return [norm_step(s.name, s.attributes) for s in a.attack_steps]

    def run_case(self, case):
        from maltoolbox.language import LanguageGraph, LanguageClassesFactory
        from maltoolbox.attackgraph import AttackGraph
        L = case['lang']
        spec = materialise.spec_of(L)
        # a specification put together in Python may use ONE object for equal parts: steps of an asset with the same
        # reaches clause share it here (equal by value - the language is the same)
        for a in spec['assets']:
            seen = {}
            for st in a['attackSteps']:
                if st.get('reaches'):
                    k = json.dumps(st['reaches'], sort_keys=True)
                    if k in seen:
                        st['reaches'] = seen[k]
                    else:
                        seen[k] = st['reaches']
        snap = copy.deepcopy(spec)
        res = {'steps': 0, 'div': [], 'features': []}
        modes = sorted({('extend' if s['reaches']['present'] and not s['reaches']['overrides'] else
                         'override' if s['reaches']['present'] else 'noreach')
                        for a in L['assets'][1:] for s in a['steps']})
        res['features'] = ['mode_' + m for m in modes]

        def div(comp, detail, k):
            return {'kind': 'divergence', 'action': case['ops'][k]['op'] if k is not None and k < len(case['ops']) else 'Load',
                    'component': comp, 'features': res['features'], 'detail': detail, 'step': k,
                    'case': {'lang': L, 'ops': case['ops'], 'folds': case['folds']}, 'adapter': 'harness.replay_fold'}
        lg = LanguageGraph(spec)
        if spec != snap:
            res['div'].append(div('spec_mutated', {'by': 'LanguageGraph(...)'}, None))
            return res
        # every type once after loading, via the graph's own step nodes
        for T, fold in case['folds'].items():
            got = [norm_step(s.name, s.attributes) for s in lg.get_asset_by_name(T).attack_steps]
            if json.dumps(got, sort_keys=True) != json.dumps(want_steps(fold), sort_keys=True):
                res['div'].append(div('attack_steps', {'type': T, 'want': want_steps(fold), 'got': got}, None))
                return res
        model = None
        for k, op in enumerate(case['ops']):
            res['steps'] += 1
            if op['op'] == 'Lookup':
                got = self.answer(lg, op['T'])
                want = want_steps(case['folds'][op['T']])
                if json.dumps(got, sort_keys=True) != json.dumps(want, sort_keys=True):
                    res['div'].append(div('lookup', {'type': op['T'], 'want': want, 'got': got}, k))
                    return res
            elif op['op'] == 'RegenLangGraph':
                lg.regenerate_graph()
            elif op['op'] == 'GenAttackGraph':
                if model is None:
                    f = LanguageClassesFactory(lg)
                    from maltoolbox.model import Model
                    model = Model('m', f)
                    objs = [getattr(f.ns, T)(name='i' + T) for T in ('R0', 'R2', 'R4', 'Sib')]
                    for o in objs:
                        model.add_asset(o)
                    lk = f.ns.Lk()
                    lk.fl = [objs[0], objs[1]]
                    lk.fr = [objs[2], objs[3]]
                    model.add_association(lk)
                AttackGraph(lg, model)
            if spec != snap:
                res['div'].append(div('spec_mutated', {'by': op}, k))
                return res
            for T, fold in case['folds'].items():
                got = [norm_step(s.name, s.attributes) for s in lg.get_asset_by_name(T).attack_steps]
                if json.dumps(got, sort_keys=True) != json.dumps(want_steps(fold), sort_keys=True):
                    res['div'].append(div('attack_steps_after', {'type': T, 'after': op}, k))
                    return res
        res['nontrivial'] = json.dumps([[s['name'], s['reaches']] for a in L['assets'] for s in a['steps'] if s['name'] == 's']) + json.dumps(case['ops'])
        res['sample'] = {'modes': [[a['name'], [('+>' if s['reaches']['present'] and not s['reaches']['overrides'] else '->' if s['reaches']['present'] else 'no reaches') for s in a['steps'] if s['name'] == 's']] for a in L['assets']],
                         'ops': case['ops']}
        return res


def replay_divergence(d):
    ad = Adapter()
    r = ad.run_case(d['case'])
    return bool(r['div']), {'divergences': [{k: v for k, v in x.items() if k in ('action', 'component', 'detail')} for x in r['div']]}
