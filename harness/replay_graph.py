"""Adapter (C01, C02, C15-edges, C16-inputs): (language, model) pairs with the attack graph the specification
assigns to them -> real Model + AttackGraph; children/parents, node attributes and lookups compared."""
import copy
import json

from harness import materialise


def build_model(ctx, assets, assocs, name='m'):
    """Materialise a ModelSM state directly (assets in list order with their ids/names/defenses, then the
    associations). Returns (model, handle -> object)."""
    m = ctx.new_model(name)
    objs = {}
    for a in assets:
        cls = getattr(ctx.ns, a['type'])
        o = cls(name=a['name'])
        d = a['def'] if isinstance(a['def'], dict) else {}
        for k, v in d.items():
            setattr(o, k, v / 10)
        m.add_asset(o, asset_id=a['id'])
        if a.get('extras'):
            o.extras = {'k': a['extras']}
        objs[a['h']] = o
    for s in assocs:
        decl = ctx.L['assocs'][s['cls'] - 1]
        x = ctx.assoc_class(s['cls'])()
        setattr(x, decl['lf'], [objs[h] for h in s['l']])
        setattr(x, decl['rf'], [objs[h] for h in s['r']])
        m.add_association(x)
        if s.get('extras'):
            x.extras = {'k': s['extras']}
        objs[s['h']] = x
    return m, objs


def edge_key(e, names):
    return (names[e[0]], e[1], names[e[2]], e[3])


def check_graph(case, ctx, m, objs, g):
    """Compare a generated AttackGraph g with the expectation in case['exp']; returns a list of
    (component, detail, features)."""
    out = []
    exp = case['exp']
    names = {a['h']: a['name'] for a in case['assets']}
    nodes = list(g.nodes)
    # ---- C02: node set, attributes, ids, names, lookups
    want_nodes = {(names[n['asset']], n['step']): n for n in exp['nodes']}
    got_keys = [(str(n.asset.name), n.name) for n in nodes]
    if sorted(got_keys) != sorted(want_nodes):
        out.append(('nodes', {'missing': sorted(set(want_nodes) - set(got_keys))[:6],
                              'unexpected': sorted(set(got_keys) - set(want_nodes))[:6],
                              'duplicates': len(got_keys) - len(set(got_keys))}, []))
        return out
    ids = [n.id for n in nodes]
    if len(set(ids)) != len(ids):
        out.append(('ids_unique', {'ids': ids[:20]}, []))
    fulls = [n.full_name for n in nodes]
    if len(set(fulls)) != len(fulls):
        out.append(('full_names_unique', {'names': fulls[:20]}, []))
    for n in nodes:
        w = want_nodes[(str(n.asset.name), n.name)]
        ops = sorted(w['ops'])
        if n.type != w['kind']:
            out.append(('attr_type', {'node': n.full_name, 'want': w['kind'], 'got': n.type}, ops))
        wt = materialise.ttc(w['ttc'])
        if n.ttc != wt:
            out.append(('attr_ttc', {'node': n.full_name, 'want': wt, 'got': n.ttc}, ops))
        if list(n.tags) != list(w['tags']):
            out.append(('attr_tags', {'node': n.full_name, 'want': w['tags'], 'got': list(n.tags)}, ops))
        wm = None if w['mitre'] == 'NONE' else w['mitre']
        if n.mitre_info != wm:
            out.append(('attr_mitre', {'node': n.full_name, 'want': wm, 'got': n.mitre_info}, ops))
        if w['kind'] == 'defense':
            got = None if n.defense_status is None else int(round(float(n.defense_status) * 10))
            if got != w['dstat']:
                out.append(('attr_defense_status', {'node': n.full_name, 'want': w['dstat'], 'got': got}, ops))
        elif n.defense_status is not None:
            out.append(('attr_defense_status', {'node': n.full_name, 'want': None, 'got': n.defense_status}, ops))
        if w['kind'] in ('exist', 'notExist'):
            if w['estat'] in ('T', 'F') and n.existence_status != (w['estat'] == 'T'):
                out.append(('attr_existence_status', {'node': n.full_name, 'want': w['estat'],
                                                      'got': n.existence_status}, ops))
        elif n.existence_status is not None:
            out.append(('attr_existence_status', {'node': n.full_name, 'want': None, 'got': n.existence_status}, ops))
        if n.asset is not objs[w['asset']]:
            out.append(('attr_asset', {'node': n.full_name}, ops))
        if g.get_node_by_id(n.id) is not n:
            out.append(('lookup_id', {'node': n.full_name, 'id': n.id}, ops))
        if g.get_node_by_full_name(n.full_name) is not n:
            out.append(('lookup_name', {'node': n.full_name}, ops))
    for absent in (-1, max(ids) + 1 if ids else 0, 10 ** 6):
        if g.get_node_by_id(absent) is not None:
            out.append(('lookup_id_stale', {'id': absent}, []))
    if g.get_node_by_full_name('no such:node') is not None:
        out.append(('lookup_name_stale', {}, []))
    # ---- C01: edges within [lo, hi]; parents = converse of children
    lo = {edge_key(e, names) for e in exp['lo']}
    hi = {edge_key(e, names) for e in exp['hi']}
    child = set()
    parent = set()
    node_set = {id(n) for n in nodes}
    for n in nodes:
        for c in n.children:
            if id(c) not in node_set:
                out.append(('child_outside_graph', {'node': n.full_name}, []))
                continue
            child.add((str(n.asset.name), n.name, str(c.asset.name), c.name))
        for p in n.parents:
            if id(p) not in node_set:
                out.append(('parent_outside_graph', {'node': n.full_name}, []))
                continue
            parent.add((str(p.asset.name), p.name, str(n.asset.name), n.name))
    ops_of = {(names[n['asset']], n['step']): sorted(n['ops']) for n in exp['nodes']}
    missing = lo - child
    extra = child - hi
    if missing or extra:
        src = sorted({(e[0], e[1]) for e in (missing | extra)})
        feats = sorted({o for s in src for o in ops_of.get(s, [])} - {'field', 'attackStep', 'collect'})
        out.append(('edges', {'missing': sorted(missing)[:6], 'unexpected': sorted(extra)[:6], 'sources': src[:6]},
                    feats))
    # ---- C15: every attack-graph edge is predicted by a language-graph link from step s of X's type to a step t
    #      owned by Y's type or one of its ancestors
    lg = ctx.lang_graph
    lgsteps = {(st.asset.name, st.name): st for st in lg.attack_steps}
    unpredicted = []
    for n in nodes:
        src = lgsteps.get((str(n.asset.type), n.name))
        for c in n.children:
            if id(c) not in node_set:
                continue
            ok = False
            if src is not None:
                for (tgt, _chain) in src.children.get(c.name, []):
                    ta = lg.get_asset_by_name(str(c.asset.type))
                    if tgt.name == c.name and ta is not None and ta.is_subasset_of(tgt.asset):
                        ok = True
            if not ok:
                unpredicted.append((n.full_name, c.full_name))
    if unpredicted:
        src = sorted({tuple(u[0].rsplit(':', 1)) for u in unpredicted})
        feats = sorted({o for s2 in src for o in ops_of.get(s2, [])} - {'field', 'attackStep', 'collect'})
        out.append(('lg_prediction', {'edges': unpredicted[:6]}, feats))
    if parent != child:
        out.append(('parents_converse', {'only_children': sorted(child - parent)[:6],
                                         'only_parents': sorted(parent - child)[:6]}, []))
    return out


class Adapter:
    case_timeout = 20

    def __init__(self, langs=None, **kw):
        self.langs = langs or {}

    def ctx_for(self, case):
        lang = case['lang']
        if isinstance(lang, str):
            return materialise.lang_ctx(self.langs[lang], key=lang)
        return materialise.lang_ctx(lang)

    def brief(self, case):
        return {'lang': case['lang'] if isinstance(case['lang'], str) else case['lang'].get('id'),
                'assets': case['assets'], 'assocs': case['assocs']}

    def on_timeout(self, case):
        feats = sorted(set(case['exp'].get('feats', [])) | {o for n in case['exp']['nodes'] for o in n['ops']
                                                          if o in ('transitive',)})
        return {'steps': 1, 'div': [{'kind': 'divergence', 'action': 'Generate', 'component': 'timeout',
                                     'features': feats, 'case': self.brief(case), 'expected': case['exp'],
                                     'adapter': 'harness.replay_graph'}]}

    def run_case(self, case):
        from maltoolbox.attackgraph import AttackGraph
        res = {'steps': 1, 'div': [], 'features': list(case['exp'].get('feats', []))}
        try:
            ctx = self.ctx_for(case)
        except Exception as e:
            if not isinstance(case['lang'], str):
                # a RANDOM language (LangGen) that the toolbox refuses to load is inconclusive, not a divergence: the specification types intersection / difference by the common super asset (as malc does), the toolbox by the left operand, so a type filter such as (fe - fa)[T] can be well-formed for one and not for the other (DESIGN.md section 7); library languages must load
                res['inconclusive'] = True
                res['features'].append('generated_language_refused')
                return res
            # a library language is well-formed by construction: the language graph must accept it
            d = self.div(case, 'language_graph_raises', {'error': repr(e)[:400]}, [])
            d['lang_record'] = case['lang'] if not isinstance(case['lang'], str) else None
            res['div'].append(d)
            return res
        try:
            m, objs = build_model(ctx, case['assets'], case['assocs'])
        except Exception as e:
            # the generators only emit models that are valid for the language (C06's guards): they must be accepted
            res['div'].append(self.div(case, 'valid_model_rejected', {'error': repr(e)[:400]}, []))
            return res
        mfeats = sorted(case['exp'].get('feats', []))
        try:
            g = AttackGraph(ctx.lang_graph, m)
        except RecursionError:
            res['div'].append(self.div(case, 'recursion', {}, mfeats + ['transitive']))
            return res
        except Exception as e:
            res['div'].append(self.div(case, 'exception', {'error': repr(e)[:300]}, mfeats))
            return res
        for comp, detail, feats in check_graph(case, ctx, m, objs, g)[:4]:
            res['div'].append(self.div(case, comp, detail, sorted(set(feats) | set(mfeats))))
        nontriv = bool(case['exp']['hi'])
        if nontriv:
            res['nontrivial'] = json.dumps([case['lang'] if isinstance(case['lang'], str) else case['lang'].get('id'),
                                            [[a['type'], a['name']] for a in case['assets']],
                                            sorted([s['cls'], s['l'], s['r']] for s in case['assocs'])])
        for n in case['exp']['nodes']:
            for o in n['ops']:
                if o not in ('field', 'attackStep', 'collect'):
                    res['features'].append('op_' + o)
        res['features'] = sorted(set(res['features']))
        res['sample'] = {'lang': self.brief(case)['lang'], 'assets': [[a['type'], a['name']] for a in case['assets']],
                         'assocs': [[s['cls'], s['l'], s['r']] for s in case['assocs']],
                         'expected_edges_lo': len(case['exp']['lo']), 'expected_edges_hi': len(case['exp']['hi'])}
        return res

    def div(self, case, comp, detail, feats):
        return {'kind': 'divergence', 'action': 'Generate', 'component': comp, 'features': sorted(set(feats)),
                'detail': detail, 'case': self.brief(case), 'expected': case['exp'], 'adapter': 'harness.replay_graph',
                'lang_record': case['lang'] if not isinstance(case['lang'], str) else None}


def replay_divergence(d):
    from harness import common
    from maltoolbox.attackgraph import AttackGraph
    langs = common.dump_langs()
    case = {'lang': d.get('lang_record') or d['case']['lang'], 'assets': d['case']['assets'], 'assocs': d['case']['assocs'], 'exp': d['expected']}
    ad = Adapter(langs=langs)
    r = ad.run_case(case)
    return bool(r['div']), {'divergences': [{k: v for k, v in x.items() if k in ('component', 'detail', 'features')}
                                            for x in r['div']]}
