"""Adapter (C09, C10, C11, C13, C14): GraphSM behaviours -> real AttackGraph / Attacker / analysers.
Projection through the public API; identity-based checks where the property talks about sharing."""
import copy
import json
import os

from harness import materialise
from harness.replay_model import ModelDriver, norm_expected, diff_obs, canon, sort_set
from harness.replay_graph import build_model


def typed_repr(o):
    """nested structure with the TYPES of keys and scalars made explicit ({'0': 1} and {0: 1} differ)"""
    if isinstance(o, dict):
        return {'dict': sorted([[type(k).__name__, str(k), typed_repr(v)] for k, v in o.items()], key=lambda x: (x[0], x[1]))}
    if isinstance(o, (list, tuple)):
        return {'list': [typed_repr(x) for x in o]}
    return [type(o).__name__, str(o)]


def pairs(xs):
    return sorted([list(p) for p in xs])


def norm_slot(o):
    return {
        'exists': o['exists'],
        'nodes': sort_set([{'h': n['h'], 'asset': n['asset'], 'step': n['step'], 'kind': n['kind'], 'V': n['V'],
                            'N': n['N'], 'tags': sorted(n['tags']), 'extras': n['extras'], 'ttc': n['ttc']}
                           for n in o['nodes']]),
        'ch': pairs(o['ch']), 'pa': pairs(o['pa']),
        'atk': sort_set([{'h': a['h'], 'name': a['name'], 'id': a['id']} for a in o['atk']]),
        'reached': pairs(o['reached']), 'entry': pairs(o['entry']), 'compBy': pairs(o['compBy']),
    }


class GraphDriver:
    def __init__(self, ctx, mdrv):
        self.ctx = ctx
        self.mdrv = mdrv                 # ModelDriver (holds the model and asset handles)
        self.graphs = {'main': None, 'copy': None}
        self.objs = {}                   # handle -> node / attacker object
        self.rev = {}
        self.seen_ids = {'main': set(), 'copy': set()}
        self.seen_names = {'main': set(), 'copy': set()}
        self.seen_atk_ids = {'main': set(), 'copy': set()}
        self.extra = []                  # extra divergences found by identity / typed checks

    def bind(self, h, o):
        self.objs[h] = o
        self.rev[id(o)] = h

    def hof(self, o):
        return self.rev.get(id(o), -1)

    @property
    def model(self):
        return self.mdrv.model

    def bind_generated(self, g, exp_slot):
        """after Generate / Regenerate: bind the expected node handles to the node objects by (asset, step)"""
        G = self.graphs[g]
        by_key = {}
        for n in G.nodes:
            by_key.setdefault((id(n.asset), n.name), []).append(n)
        for n in exp_slot['nodes']:
            if n['asset'] == 0:
                continue
            a = self.mdrv.objs.get(n['asset'])
            cand = by_key.get((id(a), n['step']), [])
            if len(cand) == 1:
                self.bind(n['h'], cand[0])

    def apply(self, act, exp_obs):
        from maltoolbox.attackgraph import AttackGraph, AttackGraphNode, Attacker
        from maltoolbox.attackgraph.analyzers import apriori
        op = act['op']
        g = act.get('g', 'main')
        G = self.graphs.get(g)
        try:
            if op == 'Generate':
                self.graphs[g] = AttackGraph(self.ctx.lang_graph, self.model)
                self.bind_generated(g, exp_obs[g])
            elif op == 'Regenerate':
                G.regenerate_graph()
                self.bind_generated(g, exp_obs[g])
                fresh = AttackGraph(self.ctx.lang_graph, self.model)
                if json.dumps(fresh._to_dict(), sort_keys=True, default=str) != json.dumps(G._to_dict(), sort_keys=True, default=str):
                    self.extra.append(('regenerate_not_fresh', {'note': 'serialised graph differs from a freshly generated one'}))
                # regenerating for the comparison re-registered the assets' node lists on the model: restore
                for n in G.nodes:
                    pass
            elif op == 'Sibling':
                if not hasattr(self, 'siblings'):
                    self.siblings = []
                self.siblings.append(AttackGraph(self.ctx.lang_graph, self.model))      # kept alive by the caller
            elif op == 'AddNode':
                n = AttackGraphNode(type=act['kind'], name='x')
                if act['kind'] == 'defense':
                    n.defense_status = 0.0
                if act['kind'] in ('exist', 'notExist'):
                    n.existence_status = True
                if act.get('dist'):
                    n.ttc = {'type': 'function', 'name': 'Exponential', 'arguments': [0.1]}
                self.bind(act['h'], n)
                if act['reqId'] != 99:
                    G.add_node(n, node_id=act['reqId'])
                else:
                    G.add_node(n)
            elif op == 'Link':
                p, c = self.objs[act['p']], self.objs[act['c']]
                p.children.append(c)
                c.parents.append(p)
            elif op == 'RemoveNode':
                G.remove_node(self.objs[act['h']])
            elif op == 'Prune':
                apriori.prune_unviable_and_unnecessary_nodes(G)
            elif op == 'Analyse':
                apriori.calculate_viability_and_necessity(G)
            elif op == 'AttachAttackers':
                before = len(G.attackers)
                G.attach_attackers()
                for k, a in enumerate(G.attackers[before:]):
                    self.bind(act['a0'] + k, a)
            elif op == 'AddGAttacker':
                a = Attacker(name=act.get('name') or ('ga' if act['reqId'] == 99 else 'gb'))
                self.bind(act['h'], a)
                kw = {}
                if act['reqId'] != 99:
                    kw['attacker_id'] = act['reqId']
                if act.get('e') or act.get('r'):
                    # ids of the named steps; a reached step is listed twice (compromising twice changes nothing) and the
                    # entry point is given as a string, as the file loader does
                    kw['entry_points'] = [str(self.objs[h].id) for h in act.get('e', [])]
                    rs = [self.objs[h].id for h in act.get('r', [])]
                    kw['reached_attack_steps'] = rs + rs[:1]
                G.add_attacker(a, **kw)
            elif op == 'RemoveGAttacker':
                G.remove_attacker(self.objs[act['h']])
            elif op == 'Compromise':
                a, n = self.objs[act['a']], self.objs[act['h']]
                a.compromise(n) if act['side'] == 'attacker' else n.compromise(a)
            elif op == 'Undo':
                a, n = self.objs[act['a']], self.objs[act['h']]
                a.undo_compromise(n) if act['side'] == 'attacker' else n.undo_compromise(a)
            elif op == 'DeepCopy':
                src = self.graphs['main']
                cp = copy.deepcopy(src)
                self.graphs['copy'] = cp
                if len(cp.nodes) == len(src.nodes):
                    for a, b in zip(src.nodes, cp.nodes):
                        self.bind(self.hof(a) + act['off'], b)
                if len(cp.attackers) == len(src.attackers):
                    for a, b in zip(src.attackers, cp.attackers):
                        self.bind(self.hof(a) + act['off'], b)
                self.check_copy(src, cp)
            elif op == 'SaveLoad':
                self.save_load(g, act)
            elif op == 'Touch':
                n = self.objs[act['h']]
                w = act['what']
                if w == 'tags':
                    n.tags.append('touched')
                elif w == 'extras':
                    if 'm' not in n.extras:
                        n.extras['k'] = 7
                        n.extras['m'] = {'0': []}          # a nested container under a digit-only string key
                    else:
                        n.extras['m']['0'].append(len(n.extras['m']['0']))      # mutated in place
                elif w == 'ttc':
                    if isinstance(n.ttc, dict):
                        n.ttc['touched'] = 7
                    else:
                        n.ttc = {'touched': 7}
                elif w == 'label':
                    n.is_viable = False
            else:
                raise RuntimeError('unknown graph action ' + op)
        except RuntimeError:
            raise
        except Exception as e:
            self.last_exc = repr(e)[:300]
            return 'exc'
        return 'ok'

    # ------------------------------------------------------------- C14 identity checks
    def check_copy(self, src, cp):
        if json.dumps(src._to_dict(), sort_keys=True, default=str) != json.dumps(cp._to_dict(), sort_keys=True, default=str):
            self.extra.append(('copy_serialisation_differs', {}))
        if (src.next_node_id, src.next_attacker_id) != (cp.next_node_id, cp.next_attacker_id):
            self.extra.append(('copy_counters_differ', {}))
        if cp.model is not src.model or cp.lang_graph is not src.lang_graph:
            self.extra.append(('copy_model_or_language_not_shared', {}))
        src_ids = {id(n) for n in src.nodes} | {id(a) for a in src.attackers}
        for a, b in zip(src.nodes, cp.nodes):
            shared = []
            if a is b:
                shared.append('node')
            for f in ('children', 'parents', 'tags', 'extras', 'compromised_by'):
                if getattr(a, f) is getattr(b, f):
                    shared.append(f)
            if a.ttc is not None and isinstance(a.ttc, (dict, list)) and a.ttc is b.ttc:
                shared.append('ttc')
            for x in list(b.children) + list(b.parents) + list(b.compromised_by):
                if id(x) in src_ids:
                    shared.append('reference_into_original')
            if cp.get_node_by_id(b.id) is not b or cp.get_node_by_full_name(b.full_name) is not b:
                shared.append('lookup_not_into_copy')
            if shared:
                self.extra.append(('copy_shares', {'node': a.full_name, 'what': sorted(set(shared))}))
                return
        for a, b in zip(src.attackers, cp.attackers):
            if a is b or a.reached_attack_steps is b.reached_attack_steps or a.entry_points is b.entry_points \
                    or any(id(x) in src_ids for x in list(b.reached_attack_steps) + list(b.entry_points)) \
                    or cp.get_attacker_by_id(b.id) is not b:
                self.extra.append(('copy_shares', {'attacker': a.name}))
                return

    # ------------------------------------------------------------- C10 typed round trip
    @staticmethod
    def typed(G):
        """value-normalised content of a graph (what C10 says must survive a round trip)"""
        def num(v):
            return None if v is None else float(v)
        nodes = {}
        for n in G.nodes:
            nodes[int(n.id)] = {
                'id': int(n.id), 'type': str(n.type), 'name': str(n.name), 'ttc': json.loads(json.dumps(n.ttc, default=str)),
                'defense_status': num(n.defense_status),
                'existence_status': None if n.existence_status is None else bool(n.existence_status),
                'is_viable': bool(n.is_viable), 'is_necessary': bool(n.is_necessary),
                'mitre_info': None if n.mitre_info is None else str(n.mitre_info),
                'tags': [str(t) for t in n.tags] if isinstance(n.tags, (list, tuple)) else repr(n.tags),
                'extras': typed_repr(n.extras),
                'children': sorted({int(c.id) for c in n.children}), 'parents': sorted({int(p.id) for p in n.parents}),
                'compromised_by': sorted(int(a.id) for a in n.compromised_by)}
        atk = {}
        for a in G.attackers:
            atk[int(a.id)] = {'id': int(a.id), 'name': str(a.name), 'entry': sorted(int(x.id) for x in a.entry_points),
                              'reached': sorted(int(x.id) for x in a.reached_attack_steps)}
        return {'nodes': nodes, 'attackers': atk}

    @staticmethod
    def type_errors(G):
        """typed attributes of a LOADED graph: ids int, statuses float / bool, tags a list of str"""
        bad = []
        for n in G.nodes:
            if not isinstance(n.id, int) or isinstance(n.id, bool):
                bad.append((n.full_name, 'id', type(n.id).__name__))
            if n.defense_status is not None and not isinstance(n.defense_status, float):
                bad.append((n.full_name, 'defense_status', type(n.defense_status).__name__))
            if n.existence_status is not None and not isinstance(n.existence_status, bool):
                bad.append((n.full_name, 'existence_status', type(n.existence_status).__name__))
            if not isinstance(n.is_viable, bool) or not isinstance(n.is_necessary, bool):
                bad.append((n.full_name, 'labels', type(n.is_viable).__name__))
            if not isinstance(n.tags, list) or not all(isinstance(t, str) for t in n.tags):
                bad.append((n.full_name, 'tags', type(n.tags).__name__))
            if n.mitre_info is not None and not isinstance(n.mitre_info, str):
                bad.append((n.full_name, 'mitre_info', type(n.mitre_info).__name__))
        return bad

    def save_load(self, g, act):
        from maltoolbox.attackgraph import AttackGraph
        G = self.graphs[g]
        before = self.typed(G)
        path = os.path.join(os.getcwd(), 'ag-%d.%s' % (os.getpid(), act['fmt']))
        G.save_to_file(path)
        L = AttackGraph.load_from_file(path, model=self.model if act['withModel'] else None)
        os.unlink(path)
        after = self.typed(L)
        if json.dumps(before, sort_keys=True, default=str) != json.dumps(after, sort_keys=True, default=str):
            d = {}
            for k in before['nodes']:
                if k not in after['nodes']:
                    d = {'node_missing': k}
                    break
                for f in before['nodes'][k]:
                    if json.dumps(before['nodes'][k][f], sort_keys=True, default=str) != json.dumps(after['nodes'][k][f], sort_keys=True, default=str):
                        d = {'node': '%s:%s' % (k, before['nodes'][k]['name']), 'field': f, 'before': before['nodes'][k][f],
                             'after': after['nodes'][k][f]}
                        break
                if d:
                    break
            if not d:
                d = {'attackers_before': before['attackers'], 'attackers_after': after['attackers']}
            self.extra.append(('roundtrip_' + str(d.get('field', 'attackers' if 'attackers_before' in d else 'nodes')), d))
        te = self.type_errors(L)
        if te:
            self.extra.append(('roundtrip_type_' + te[0][1], {'errors': [list(x) for x in te[:5]]}))
        if act['withModel']:
            had_asset = {n.id for n in G.nodes if n.asset is not None}
            for n in L.nodes:
                if n.id in had_asset and (n.asset is None or self.model.get_asset_by_name(str(n.asset.name)) is not n.asset):
                    self.extra.append(('roundtrip_asset_binding', {'node': n.full_name}))
                    break
                if n.id not in had_asset and n.asset is not None:
                    self.extra.append(('roundtrip_asset_invented', {'node': n.full_name, 'asset': str(n.asset.name)}))
                    break
        # bind the loaded objects: same id -> handle + off
        old = {n.id: self.hof(n) for n in G.nodes}
        for n in L.nodes:
            if n.id in old:
                self.bind(old[n.id] + act['off'], n)
        olda = {a.id: self.hof(a) for a in G.attackers}
        for a in L.attackers:
            if a.id in olda:
                self.bind(olda[a.id] + act['off'], a)
        self.graphs[g] = L

    # ------------------------------------------------------------- projection
    def project_slot(self, g):
        G = self.graphs[g]
        if G is None:
            return {'exists': False, 'nodes': [], 'ch': [], 'pa': [], 'atk': [], 'reached': [], 'entry': [], 'compBy': []}
        nodes, ch, pa, comp = [], [], [], []
        for n in G.nodes:
            ex = n.extras if isinstance(n.extras, dict) else {}
            nodes.append({'h': self.hof(n), 'asset': self.mdrv.hof(n.asset) if n.asset is not None else 0,
                          'step': n.name, 'kind': n.type, 'V': bool(n.is_viable), 'N': bool(n.is_necessary),
                          'tags': sorted(set(n.tags)) if isinstance(n.tags, list) else ['<not a list>'],
                          'extras': (int(ex.get('k', 0)) + len(ex['m'].get('0', [])) if isinstance(ex.get('m'), dict) and isinstance(ex['m'].get('0', []), list) else int(ex.get('k', 0))),
                          'ttc': 7 if isinstance(n.ttc, dict) and 'touched' in n.ttc else 0})
            for c in n.children:
                ch.append([self.hof(n), self.hof(c)])
            for p in n.parents:
                pa.append([self.hof(p), self.hof(n)])
            for a in n.compromised_by:
                comp.append([self.hof(n), self.hof(a)])
            self.seen_ids[g].add(n.id)
            self.seen_names[g].add(n.full_name)
        atk, reached, entry = [], [], []
        for a in G.attackers:
            atk.append({'h': self.hof(a), 'name': a.name, 'id': a.id})
            for n in a.reached_attack_steps:
                reached.append([self.hof(a), self.hof(n)])
            for n in a.entry_points:
                entry.append([self.hof(a), self.hof(n)])
            self.seen_atk_ids[g].add(a.id)
        # the multiset matters for "no duplicate": keep duplicates visible
        # children / parents are compared as sets (the properties speak of the relation); the attacker-side and
        # node-side lists keep duplicates visible ("compromising twice changes nothing")
        ch = sorted([list(x) for x in {tuple(p) for p in ch}])
        pa = sorted([list(x) for x in {tuple(p) for p in pa}])
        return {'exists': True, 'nodes': sort_set(nodes), 'ch': ch, 'pa': pa, 'atk': sort_set(atk),
                'reached': sorted(reached), 'entry': sorted(entry), 'compBy': sorted(comp)}

    def index_mismatches(self, g):
        """lookups by id / full name / attacker id return exactly what is in the graph; ids unique"""
        G = self.graphs[g]
        if G is None:
            return []
        bad = []
        live = {id(n) for n in G.nodes}
        ids = [n.id for n in G.nodes]
        if len(set(ids)) != len(ids):
            bad.append({'ids_not_unique': sorted(ids)})
        by_id = {n.id: n for n in G.nodes}
        by_name = {n.full_name: n for n in G.nodes}
        for i in set(self.seen_ids[g]) | {-1, 10 ** 6}:
            got = G.get_node_by_id(i)
            if got is not by_id.get(i):
                bad.append({'lookup': 'id', 'key': i, 'stale': got is not None and id(got) not in live})
        for nm in set(self.seen_names[g]) | {'no:such'}:
            got = G.get_node_by_full_name(nm)
            if got is not by_name.get(nm):
                bad.append({'lookup': 'name', 'key': nm, 'stale': got is not None and id(got) not in live})
        a_by_id = {a.id: a for a in G.attackers}
        if len(a_by_id) != len(G.attackers):
            bad.append({'attacker_ids_not_unique': [a.id for a in G.attackers]})
        for i in set(self.seen_atk_ids[g]) | {-1, 10 ** 6}:
            got = G.get_attacker_by_id(i)
            if got is not a_by_id.get(i):
                bad.append({'lookup': 'attacker', 'key': i})
        # the predicates the queries and analysers are built on agree with the lists (checked after the lists themselves
        # matched the specification's compBy relation)
        for n in G.nodes:
            if n.is_compromised() != (len(n.compromised_by) > 0):
                bad.append({'predicate': 'is_compromised', 'node': n.full_name})
            for a in G.attackers:
                if n.is_compromised_by(a) != any(x is a for x in n.compromised_by):
                    bad.append({'predicate': 'is_compromised_by', 'node': n.full_name, 'attacker': a.name})
        return bad


def features_g(act, pre):
    fs = []
    op = act['op']
    if pre is not None and op in ('RemoveNode',):
        s = pre[act.get('g', 'main')]
        if any(p[1] == act['h'] for p in s['reached']):
            fs.append('node_is_compromised')
    if pre is not None and op == 'Prune':
        s = pre[act.get('g', 'main')]
        prun = [n['h'] for n in s['nodes'] if n['kind'] in ('or', 'and') and not (n['V'] and n['N'])]
        if len(prun) >= 2:
            fs.append('several_prunable')
        if any(p[1] in prun for p in s['reached']):
            fs.append('prunable_is_compromised')
    if pre is not None and op == 'RemoveGAttacker':
        s = pre[act.get('g', 'main')]
        if sum(1 for p in s['reached'] if p[0] == act['h']) >= 2:
            fs.append('attacker_reached_several')
    if op == 'SaveLoad':
        if pre is not None:
            names = [a['name'] for a in pre[act.get('g', 'main')]['atk']]
            if len(set(names)) != len(names):
                fs.append('two_attackers_same_name')
        fs.append(act['fmt'])
        fs.append('with_model' if act['withModel'] else 'without_model')
    if op == 'Touch':
        fs.append('touch_' + act['what'])
    return fs


class Adapter:
    case_timeout = 30

    def __init__(self, langs=None, **kw):
        self.langs = langs or {}

    def on_timeout(self, case):
        return {'steps': len(case['hist']), 'div': [{'kind': 'timeout', 'action': 'any', 'component': 'timeout',
                                                     'features': [], 'case': brief(case)}]}

    def run_case(self, case):
        lang = case['lang']
        ctx = materialise.lang_ctx(self.langs[lang], key=lang) if isinstance(lang, str) else materialise.lang_ctx(lang)
        mdrv = ModelDriver(ctx)
        # fixed initial model, if any
        m0 = case.get('model') or {}
        if m0.get('assets'):
            from maltoolbox.model import AttackerAttachment
            m, objs = build_model(ctx, m0['assets'], m0['assocs'])
            mdrv.model = m
            for h, o in objs.items():
                mdrv.bind(h, o)
            for t in m0.get('atk', []):
                at = AttackerAttachment(name=t['name'])
                m.add_attacker(at, attacker_id=t['id'])
                for e in t['ep']:
                    for s in e['steps']:
                        at.add_entry_point(objs[e['a']], s)
                mdrv.bind(t['h'], at)
        gd = GraphDriver(ctx, mdrv)
        res = {'steps': 0, 'div': [], 'features': []}
        prev_g = None
        gsteps = 0
        acts = []
        for k, step in enumerate(case['hist']):
            act = step['act']
            acts.append(act)
            res['steps'] += 1
            if step['k'] == 'm':
                got = mdrv.apply(act)
                if got != act['res']:
                    res['div'].append(self.div(case, k, act, 'model_outcome', {}, []))
                    break
                exp = norm_expected(step['obs'])
                d = diff_obs(exp, mdrv.project())
                if d:
                    res['inconclusive'] = True     # model-level divergences are C05's business
                    break
                continue
            gsteps += 1
            exp = {g: norm_slot(step['obs'][g]) for g in ('main', 'copy')}
            feats = features_g(act, prev_g)
            res['features'].extend(feats)
            res['features'].append('op_' + act['op'])
            gd.extra = []
            got = gd.apply(act, step['obs'])
            if got != act['res']:
                res['div'].append(self.div(case, k, act, 'outcome', {'got': got, 'want': act['res'],
                                                                     'exception': getattr(gd, 'last_exc', None)}, feats))
                break
            actual = {g: gd.project_slot(g) for g in ('main', 'copy')}
            bad = None
            for g in ('main', 'copy'):
                for comp in ('exists', 'nodes', 'ch', 'pa', 'atk', 'reached', 'entry', 'compBy'):
                    if canon(exp[g][comp]) != canon(actual[g][comp]):
                        e = exp[g][comp]
                        a = actual[g][comp]
                        if isinstance(e, list):
                            es = {canon(x) for x in e}
                            as_ = [canon(x) for x in a]
                            detail = {'slot': g, 'missing': [json.loads(x) for x in sorted(es - set(as_))][:5],
                                      'unexpected': [json.loads(x) for x in sorted(set(as_) - es)][:5],
                                      'duplicates': len(as_) - len(set(as_))}
                        else:
                            detail = {'slot': g, 'want': e, 'got': a}
                        bad = (comp + ('' if g == act.get('g', 'main') or act['op'] == 'DeepCopy' else '_other_slot'), detail)
                        break
                if bad:
                    break
            if bad:
                res['div'].append(self.div(case, k, act, bad[0], bad[1], feats))
                break
            for g in ('main', 'copy'):
                im = gd.index_mismatches(g)
                if im:
                    res['div'].append(self.div(case, k, act, 'index', {'slot': g, 'mismatches': im[:5]}, feats))
                    break
            if res['div']:
                break
            if gd.extra:
                comp, detail = gd.extra[0]
                res['div'].append(self.div(case, k, act, comp, detail, feats))
                break
            prev_g = exp
        if res['div'] and res['div'][-1].get('kind') == 'divergence' and res['div'][-1].get('step') is not None:
            self.degraded(case, res['div'][-1]['step'], gd, res)
        if gsteps >= 2:
            res['nontrivial'] = json.dumps(acts, sort_keys=True)[:4000]
        res['features'] = sorted(set(res['features']))
        res['sample'] = {'lang': lang if isinstance(lang, str) else lang.get('id'), 'acts': acts[:10]}
        return res

    def degraded(self, case, k0, gd, res):
        """After the first divergence the expected observations no longer apply, but SaveLoad and DeepCopy are stutters
        on WHATEVER the graph is: the rest of the behaviour is still applied and those two actions are judged against
        the actual state before them (round trip / copy equal and independent)."""
        for k in range(k0 + 1, len(case['hist'])):
            if case['hist'][k]['k'] == 'm':
                break                                   # a model-level step: nothing to continue with
            act = case['hist'][k]['act']
            g = act.get('g', 'main')
            if act['op'] in ('SaveLoad', 'DeepCopy') and gd.graphs.get(g if act['op'] == 'SaveLoad' else 'main') is None:
                break
            gd.extra = []
            try:
                got = gd.apply(act, case['hist'][k]['obs'])
            except Exception:
                break
            if act['op'] in ('SaveLoad', 'DeepCopy'):
                feats = features_g(act, None) + ['after_earlier_divergence']
                if got != 'ok':
                    res['div'].append(self.div(case, k, act, 'outcome', {'got': got, 'want': 'ok', 'exception': getattr(gd, 'last_exc', None),
                                                                         'note': 'judged against the actual state (an earlier step had already diverged)'}, feats))
                    break
                if gd.extra:
                    res['div'].append(self.div(case, k, act, gd.extra[0][0], gd.extra[0][1], feats))
                    break
            elif got != act.get('res', 'ok'):
                break

    def div(self, case, k, act, comp, detail, feats):
        return {'kind': 'divergence', 'step': k, 'action': act['op'], 'component': comp,
                'features': sorted(set(feats)), 'detail': detail, 'case': brief(case, k),
                'adapter': 'harness.replay_gsm', 'full_case': {'lang': case['lang'], 'model': case.get('model'),
                                                               'hist': case['hist'][:k + 1]}}


def brief(case, upto=None):
    h = case['hist'] if upto is None else case['hist'][:upto + 1]
    return {'lang': case['lang'] if isinstance(case['lang'], str) else case['lang'].get('id'),
            'acts': [s['act'] for s in h]}


def replay_divergence(d):
    from harness import common
    langs = common.dump_langs()
    ad = Adapter(langs=langs)
    r = ad.run_case(d['full_case'])
    return bool(r['div']), {'divergences': [{k: v for k, v in x.items() if k in ('action', 'component', 'detail', 'features', 'step')}
                                            for x in r['div']]}
