"""Adapter (C06): the classes generated for a language against the inventory the specification computes."""
import json

from harness import materialise


class Adapter:
    case_timeout = 60

    def __init__(self, **kw):
        pass

    def on_timeout(self, case):
        return {'div': [{'kind': 'timeout', 'action': 'Inventory', 'component': 'timeout', 'features': [],
                         'case': {'lang': case['name']}}]}

    def run_case(self, case):
        L = case['lang']
        inv = case['inv']
        try:
            ctx = materialise.LangCtx(L)
        except Exception:
            if case.get('name') == 'generated':
                # a RANDOM language (LangGen) that the toolbox refuses to load is inconclusive, not a divergence: the specification types intersection / difference by the common super asset (as malc does), the toolbox by the left operand, so a type filter such as (fe - fa)[T] can be well-formed for one and not for the other (DESIGN.md section 7); library languages must load
                return {'steps': 1, 'div': [], 'inconclusive': True, 'features': ['generated_language_refused']}
            raise
        ns = ctx.ns
        divs = []

        def div(comp, detail):
            divs.append({'kind': 'divergence', 'action': 'Inventory', 'component': comp, 'features': [],
                         'detail': detail, 'case': {'lang': case['name'], 'record': L},
                         'adapter': 'harness.replay_inventory'})
        m = ctx.new_model()
        for t in inv['types']:
            T = t['name']
            if not hasattr(ns, T):
                div('type_missing', T)
                continue
            try:
                obj = getattr(ns, T)(name='x_' + T)
            except Exception as e:
                div('type_not_instantiable', '%s: %r' % (T, e))
                continue
            got = {k: int(round(float(v) * 10)) for k, v in m.get_asset_defenses(obj, include_defaults=True).items()}
            want = {d['d']: d['dflt'] for d in t['defs']}
            if got != want:
                div('defenses', {'type': T, 'want': want, 'got': got})
            for s in t['nondef']:
                # a non-defense step is not a settable defense of the instance
                if s in got:
                    div('nondefense_exposed', {'type': T, 'step': s})
            if str(obj.type) != T:
                div('type_attr', {'type': T, 'got': str(obj.type)})
        seen = {}
        for c in inv['classes']:
            try:
                cls = ctx.assoc_class(c['cls'])
            except AttributeError as e:
                div('class_missing', {'cls': c, 'err': repr(e)})
                continue
            inst = cls()
            fields = sorted(str(k) for k in inst._properties.keys())
            if fields != sorted([c['lf'], c['rf']]):
                div('class_fields', {'cls': c, 'got': fields})
            if cls in seen.values():
                div('class_not_distinguishable', {'cls': c})
            seen[c['cls']] = cls
        # exactly the language's types and association classes are exposed (plus the three schema roots)
        exposed = {x for x in dir(ns) if not x.startswith('_')}
        roots = {'LanguageAsset', 'LanguageAssociation', 'LanguageObject'}
        want_types = {t['name'] for t in inv['types']}
        want_cls = {materialise.class_name(L, c['cls']) for c in inv['classes']} | {c['base'] for c in inv['classes']}
        literal_props = {'id', 'type'} | {d['d'] for t in inv['types'] for d in t['defs']}
        extra = exposed - roots - want_types - want_cls - literal_props
        if extra:
            div('extra_classes', sorted(extra))
        return {'steps': len(inv['types']) + len(inv['classes']), 'div': divs,
                'nontrivial': case['name'], 'sample': {'lang': case['name'], 'types': len(inv['types']),
                                                       'classes': len(inv['classes'])}}
