"""Adapter (C15): the language graph built for a language against what the specification says it must contain."""
import json

from harness import materialise


class Adapter:
    case_timeout = 60

    def __init__(self, view_key='exp', **kw):
        self.view_key = view_key            # LangGen cases carry the language view under 'lgexp'
        pass

    def on_timeout(self, case):
        return {'steps': 1, 'div': [{'kind': 'timeout', 'action': 'LanguageGraph', 'component': 'timeout', 'features': [],
                                     'case': {'name': case['name']}, 'adapter': 'harness.replay_langgraph'}]}

    def run_case(self, case):
        from maltoolbox.language import LanguageGraph
        L = case['lang']
        exp = case[self.view_key]
        case = dict(case, broken=case.get('broken', []), name=case.get('name', 'generated'))
        res = {'steps': 0, 'div': [], 'features': []}

        def div(comp, detail):
            if len(res['div']) < 4:
                res['div'].append({'kind': 'divergence', 'action': 'LanguageGraph', 'component': comp, 'features': [],
                                   'detail': detail, 'case': {'name': case['name'], 'lang': L},
                                   'adapter': 'harness.replay_langgraph'})
        try:
            lg = LanguageGraph(materialise.spec_of(L))
        except Exception as e:
            if case.get('name') == 'generated':
                # a RANDOM language (LangGen) that the toolbox refuses to load is inconclusive, not a divergence: the specification types intersection / difference by the common super asset (as malc does), the toolbox by the left operand, so a type filter such as (fe - fa)[T] can be well-formed for one and not for the other (DESIGN.md section 7); library languages must load
                res['inconclusive'] = True
                res['features'].append('generated_language_refused')
                return res
            div('language_graph_raises', {'error': repr(e)[:400]})      # a well-formed library language must load
            return res
        names = [a.name for a in lg.assets]
        if sorted(names) != sorted(a['name'] for a in exp['assets']):
            div('assets', {'got': sorted(names)})
            return res
        by = {a.name: a for a in lg.assets}
        assoc_idx = {}
        for i, d in enumerate(L['assocs']):
            for a in lg.associations:
                if a.name == d['name'] and a.left_field.asset.name == d['lt'] and a.right_field.asset.name == d['rt'] \
                        and a.left_field.fieldname == d['lf'] and a.right_field.fieldname == d['rf']:
                    assoc_idx[id(a)] = i + 1
        if len(assoc_idx) != len(L['assocs']) or len(lg.associations) != len(L['assocs']):
            div('associations', {'got': [a.to_dict() for a in lg.associations][:6]})
        for e in exp['assets']:
            a = by[e['name']]
            res['steps'] += 1
            sup = [s.name for s in a.super_assets]
            if sup != ([] if e['super'] == 'NONE' else [e['super']]):
                div('super', {'asset': e['name'], 'got': sup})
            if sorted(s.name for s in a.sub_assets) != sorted(e['subs']):
                div('subs', {'asset': e['name'], 'got': sorted(s.name for s in a.sub_assets)})
            if sorted({s.name for s in a.get_all_subassets()}) != sorted(e['allsubs']):
                div('all_subassets', {'asset': e['name'], 'got': sorted({s.name for s in a.get_all_subassets()})})
            if sorted({s.name for s in a.get_all_superassets()}) != sorted(e['allsupers']):
                div('all_superassets', {'asset': e['name'], 'got': sorted({s.name for s in a.get_all_superassets()})})
            got = sorted(assoc_idx.get(id(x), 0) for x in a.associations)
            if got != sorted(e['assocs']):
                div('asset_associations', {'asset': e['name'], 'want': sorted(e['assocs']), 'got': got})
            if sorted(s.name for s in a.attack_steps) != sorted(e['steps']):
                div('asset_steps', {'asset': e['name'], 'got': sorted(s.name for s in a.attack_steps)})
        pairs = {(p[0], p[1]) for p in exp['issub']}
        for t in names:
            for u in names:
                if by[t].is_subasset_of(by[u]) != ((t, u) in pairs):
                    div('is_subasset_of', {'asset': t, 'of': u, 'got': by[t].is_subasset_of(by[u])})
        for c in exp.get('common', []):
            got = sorted(x for x in by[c['a']].get_all_common_superassets(by[c['b']]) if x is not None)
            if got != sorted(c['anc']):
                div('common_superassets', {'a': c['a'], 'b': c['b'], 'want': sorted(c['anc']), 'got': got})
        by_idx = {v: k for k, v in assoc_idx.items()}
        all_fields = {d['lf'] for d in L['assocs']} | {d['rf'] for d in L['assocs']}
        objs = {id(a): a for a in lg.associations}
        for e in exp.get('ends', []):
            a = objs.get(by_idx.get(e['i']))
            if a is None:
                continue
            d = L['assocs'][e['i'] - 1]
            for t in names:
                if a.contains_asset(by[t]) != (t in e['has']):
                    div('association_contains_asset', {'assoc': e['i'], 'asset': t, 'got': a.contains_asset(by[t])})
            opp = {p[0]: p[1] for p in e['opp']}
            for t in names:
                o = a.get_opposite_asset(by[t])
                if (o.name if o is not None else None) != opp.get(t):
                    div('association_opposite_asset', {'assoc': e['i'], 'asset': t, 'want': opp.get(t), 'got': o.name if o is not None else None})
            for f in sorted(set(all_fields) | {'zznofield'}):
                if a.contains_fieldname(f) != (f in e['fields']):
                    div('association_contains_fieldname', {'assoc': e['i'], 'field': f})
                if f in e['fields']:
                    want = d['rf'] if f == d['lf'] else d['lf']
                    if d['lf'] == d['rf']:
                        want = d['rf']
                    if a.get_opposite_fieldname(f) != want:
                        div('association_opposite_fieldname', {'assoc': e['i'], 'field': f, 'got': a.get_opposite_fieldname(f)})
        for q in exp['lookups']:
            got = lg.get_association_by_fields_and_assets(q['f1'], q['f2'], q['T1'], q['T2'])
            gi = assoc_idx.get(id(got), -1) if got is not None else 0
            ok = (gi == 0 and not q['idx']) or gi in q['idx']
            if not ok:
                div('lookup', {'query': {k: q[k] for k in ('f1', 'f2', 'T1', 'T2')}, 'want': q['idx'], 'got': gi})
        # step-to-step links: children of the source and parents of the target, both present
        want = {(l['T'], l['s'], l['U'], l['t']) for l in exp['links']}
        child = set()
        parent = set()
        for st in lg.attack_steps:
            for tname, lst in st.children.items():
                for (tgt, _chain) in lst:
                    child.add((st.asset.name, st.name, tgt.asset.name, tgt.name))
            for pname, lst in st.parents.items():
                for (src, _chain) in lst:
                    parent.add((src.asset.name, src.name, st.asset.name, st.name))
        if child != parent:
            div('links_mirror', {'only_children': sorted(child - parent)[:5], 'only_parents': sorted(parent - child)[:5]})
        # the static target type of a link is not pinned by the property (only that it over-approximates, which the
        # prediction clause checks on models): compare the links up to their target type
        w3 = {(a, b, d) for (a, b, c, d) in want}
        c3 = {(a, b, d) for (a, b, c, d) in child}
        if c3 != w3:
            div('links', {'missing': sorted(w3 - c3)[:5], 'unexpected': sorted(c3 - w3)[:5]})
        # the serialised form says the same as the objects; the stored language specification is the caller's, and a
        # graph rebuilt from the saved specification (json) or regenerated in place is the same graph
        try:
            d1 = lg._to_dict()
            if sorted(a['name'] for a in d1['Assets']) != sorted(names):
                div('serialised_assets', {'got': sorted(a['name'] for a in d1['Assets'])})
            if len(d1['Associations']) != len(L['assocs']):
                div('serialised_associations', {'got': len(d1['Associations'])})
            ser = set()
            for st in d1['Attack Steps']:
                for tname in st['children']:
                    ser.add((st['asset'], st['name'], tname.split(':')[-1]))
            if ser != c3:
                div('serialised_links', {'only_serialised': sorted(ser - c3)[:5], 'only_objects': sorted(c3 - ser)[:5]})
            import os, json as _json, tempfile
            spec = materialise.spec_of(L)
            fd, path = tempfile.mkstemp(suffix='.json', dir=os.getcwd())
            os.close(fd)
            try:
                lg.save_language_specification_to_json(path)
                stored = _json.load(open(path, encoding='utf-8'))
            finally:
                os.unlink(path)
            if _json.dumps(stored, sort_keys=True) != _json.dumps(spec, sort_keys=True):
                div('saved_specification_differs', {})
            lg2 = LanguageGraph(stored)
            if _json.dumps(lg2._to_dict(), sort_keys=True, default=str) != _json.dumps(d1, sort_keys=True, default=str):
                div('rebuilt_from_saved_specification_differs', {})
            lg.regenerate_graph()
            if _json.dumps(lg._to_dict(), sort_keys=True, default=str) != _json.dumps(d1, sort_keys=True, default=str):
                div('regenerated_language_graph_differs', {})
        except Exception as e:
            div('serialisation_raises', {'error': repr(e)[:300]})
        for b in case['broken']:
            res['steps'] += 1
            try:
                LanguageGraph(materialise.spec_of(b['lang']))
                div('error_not_reported', {'why': b['why']})
            except Exception:
                pass
        res['nontrivial'] = case['name']
        res['sample'] = {'lang': case['name'], 'assets': len(exp['assets']), 'lookups': len(exp['lookups']),
                         'links': len(exp['links']), 'broken_variants': [b['why'] for b in case['broken']]}
        return res


def replay_divergence(d):
    from harness import tlc
    found = {}
    tlc.run_tlc('Eval_LangGraph', 'Eval_LangGraph.cfg', workers=1,
                on_json=lambda v: found.__setitem__(v['name'], v))
    r = Adapter().run_case(found[d['case']['name']])
    return bool(r['div']), {'divergences': [{k: v for k, v in x.items() if k in ('component', 'detail')} for x in r['div']]}
