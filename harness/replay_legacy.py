"""Adapter (C18): the final state of a ModelSM behaviour, abstracted by the specification (AbsLegacy: assets, pairwise
links, attacker entry steps), is EMITTED in the two legacy layouts - the 0.0.39 json / yaml layout and a securiCAD .sCAD
archive (.eom XML) - by the inverse translations below (trusted glue, self-checked on the fixtures the repository
ships), loaded by the real legacy loaders, and Model._to_dict() of the result is compared with the abstraction."""
import io
import json
import os
import zipfile
from xml.sax.saxutils import quoteattr

import yaml

from harness import materialise


def emit_0039(L, abs_, name='legacy'):
    assets = {}
    for a in abs_['assets']:
        d = a['def'] if isinstance(a['def'], dict) else {}
        assets[str(a['id'])] = {'name': a['name'], 'metaconcept': a['type'],
                                'defenses': {k: v / 10 for k, v in d.items()}}
    assocs = []
    for l in abs_['links']:
        decl = L['assocs'][l['cls'] - 1]
        assocs.append({'metaconcept': materialise.class_name(L, l['cls']),
                       'association': {decl['lf']: [l['l']], decl['rf']: [l['r']]}})
    attackers = {}
    for t in abs_['atk']:
        eps = {}
        for e in abs_['entry']:
            if e['atk'] == t['id']:
                eps.setdefault(str(e['a']), {'attack_steps': []})['attack_steps'].append(e['s'])
        attackers[str(t['id'])] = {'name': t['name'], 'entry_points': eps}
    return {'metadata': {'name': name, 'langVersion': L['version'], 'langID': L['id'], 'MAL Toolbox Version': '0.0.39'},
            'assets': assets, 'associations': assocs, 'attackers': attackers}


def emit_scad(L, abs_):
    out = ['<?xml version="1.0" encoding="utf-8"?>',
           '<com.foreseeti.kernalCAD:XMIObjectModel xmi:version="2.0" xmlns:xmi="http://www.omg.org/XMI" '
           'xmlns:com.foreseeti.kernalCAD="http:///com/foreseeti/ObjectModel.ecore">']
    n = 0
    for a in abs_['assets']:
        n += 1
        out.append('  <objects description="" id="%d" name=%s metaConcept=%s template="false" exportedId="%d">'
                   % (a['id'], quoteattr(a['name']), quoteattr(a['type']), n))
        d = a['def'] if isinstance(a['def'], dict) else {}
        for k, v in d.items():
            out.append('    <evidenceAttributes metaConcept=%s><evidenceDistribution type="Bernoulli">'
                       '<parameters name="probability" value="%s"/></evidenceDistribution></evidenceAttributes>'
                       % (quoteattr(k[0].upper() + k[1:]), v / 10))
        out.append('  </objects>')
    for t in abs_['atk']:
        n += 1
        out.append('  <objects description="" id="%d" name="Attacker" metaConcept="Attacker" template="false" exportedId="%d">'
                   '<evidenceAttributes metaConcept="EntryPoint"/></objects>' % (t['id'], n))
    k = 0
    for l in abs_['links']:
        decl = L['assocs'][l['cls'] - 1]
        k += 1
        # the format lists fields and objects crosswise: the object in targetObject belongs to the field sourceProperty
        # ... so a link can be written from either end: every second one is written the other way round
        if k % 2:
            out.append('  <associations description="" sourceObject="%d" targetObject="%d" id="%d" sourceProperty=%s targetProperty=%s/>'
                       % (l['r'], l['l'], 900000 + k, quoteattr(decl['lf']), quoteattr(decl['rf'])))
        else:
            out.append('  <associations description="" sourceObject="%d" targetObject="%d" id="%d" sourceProperty=%s targetProperty=%s/>'
                       % (l['l'], l['r'], 900000 + k, quoteattr(decl['rf']), quoteattr(decl['lf'])))
    for e in abs_['entry']:
        k += 1
        out.append('  <associations description="" sourceObject="%d" targetObject="%d" id="%d" sourceProperty="firstSteps" targetProperty=%s/>'
                   % (e['atk'], e['a'], 900000 + k, quoteattr(e['s'] + '.attacker')))
    out.append('</com.foreseeti.kernalCAD:XMIObjectModel>')
    buf = io.BytesIO()
    with zipfile.ZipFile(buf, 'w') as z:
        z.writestr('model.eom', '\n'.join(out))
        z.writestr('meta.json', json.dumps({'scadVersion': '1.0.0', 'langID': L['id'], 'langVersion': L['version']}))
    return buf.getvalue()


def abs_of_dict(d, L, names=True):
    """normalise Model._to_dict() to (assets, pairwise links, entry steps)"""
    idx = {materialise.class_name(L, i + 1): i + 1 for i in range(len(L['assocs']))}
    assets = {}
    for i, a in d['assets'].items():
        assets[int(i)] = {'name': a['name'], 'type': a['type'],
                          'def': {k: int(round(float(v) * 10)) for k, v in a.get('defenses', {}).items()}}
    links = set()
    for x in d['associations']:
        cname = [k for k in x if k != 'extras'][0]
        ci = idx.get(cname, -1)
        decl = L['assocs'][ci - 1] if ci > 0 else None
        f = x[cname]
        if decl is None:
            links.add((cname, -1, -1))
            continue
        for a in f[decl['lf']]:
            for b in f[decl['rf']]:
                links.add((ci, int(a), int(b)))
    entry = set()
    atk = {}
    for i, t in d['attackers'].items():
        atk[int(i)] = t['name']
        for aid, e in t['entry_points'].items():
            for s in e['attack_steps']:
                entry.add((int(i), int(aid), s))
    return assets, links, entry, atk


class Adapter:
    case_timeout = 40

    def __init__(self, langs=None, **kw):
        self.langs = langs or {}
        self.seen = set()

    def on_timeout(self, case):
        return {'steps': 1, 'div': [{'kind': 'timeout', 'action': 'LoadLegacy', 'component': 'timeout', 'features': [],
                                     'case': {'lang': case['lang']}, 'adapter': 'harness.replay_legacy'}]}

    def run_case(self, case):
        from maltoolbox.translators import updater, securicad
        lang = case['lang']
        L = self.langs[lang]
        ctx = materialise.lang_ctx(L, key=lang)
        ab = case['abs']
        if len(ab['assets']) % 2 == 0:
            # every second case: explicit names carry a blank at either end (legal in every layout, kept by every loader)
            ab = dict(ab, assets=[dict(a, name=(' ' + a['name'] + ' ') if a['name'].startswith('n1') else a['name']) for a in ab['assets']])
        res = {'steps': 0, 'div': [], 'features': []}
        if case.get('hist') and case['hist'][-1]['act']['res'] == 'collide':
            return res
        key = lang + json.dumps(ab, sort_keys=True)
        if key in self.seen:
            return res          # the same abstraction was already emitted and loaded by this worker
        self.seen.add(key)
        defaults = {}
        for a in ab['assets']:
            d = a['def'] if isinstance(a['def'], dict) else {}
            defaults[a['id']] = d
        want_assets = {a['id']: {'name': a['name'], 'type': a['type']} for a in ab['assets']}
        want_links = {(l['cls'], l['l'], l['r']) for l in ab['links']}
        want_entry = {(e['atk'], e['a'], e['s']) for e in ab['entry']}
        feats = set()
        per_asset = {}
        for e in ab['entry']:
            per_asset.setdefault((e['atk'], e['a']), []).append(e['s'])
        if any(len(v) > 1 for v in per_asset.values()):
            feats.add('several_entry_steps_on_one_asset')
        if len({e['a'] for e in ab['entry']}) > 1:
            feats.add('entry_points_on_several_assets')
        if any(a['id'] < 0 for a in ab['assets']):
            feats.add('negative_ids')
        types = {a['id']: a['type'] for a in ab['assets']}
        for l in ab['links']:
            decl = L['assocs'][l['cls'] - 1]
            shared = sum(1 for b in L['assocs'] if b['name'] == decl['name']) > 1
            if shared:
                feats.add('duplicate_named_association')
                if types[l['l']] != decl['lt'] or types[l['r']] != decl['rt']:
                    feats.add('duplicate_named_association_with_subtype_member')
            elif types[l['l']] != decl['lt'] or types[l['r']] != decl['rt']:
                feats.add('subtype_member')
        res['features'] = sorted(feats)

        def div(kind, comp, detail):
            if len(res['div']) < 3:
                res['div'].append({'kind': 'divergence', 'action': 'LoadLegacy', 'component': comp,
                                   'features': sorted((feats & {'several_entry_steps_on_one_asset', 'duplicate_named_association_with_subtype_member'}) | {kind}), 'detail': detail,
                                   'case': {'lang': lang, 'abs': ab}, 'full_case': {'lang': lang, 'abs': ab, 'hist': []},
                                   'adapter': 'harness.replay_legacy'})
        d = os.getcwd()
        loads = []
        doc = emit_0039(L, ab)
        for ext in ('json', 'yml'):
            p = os.path.join(d, 'leg-%d.%s' % (os.getpid(), ext))
            with open(p, 'w', encoding='utf-8') as f:
                if ext == 'json':
                    json.dump(doc, f)
                else:
                    yaml.safe_dump(doc, f)
            loads.append(('v0_0_39_' + ext, lambda p=p: updater.load_model_from_older_version(p, ctx.factory, '0.0.39'), p, True))
        p = os.path.join(d, 'leg-%d.sCAD' % os.getpid())
        with open(p, 'wb') as f:
            f.write(emit_scad(L, ab))
        loads.append(('scad', lambda p=p: securicad.load_model_from_scad_archive(p, ctx.lang_graph, ctx.factory), p, False))
        for kind, fn, path, has_names in loads:
            res['steps'] += 1
            try:
                m = fn()
            except Exception as e:
                div(kind, 'load_raises', {'error': repr(e)[:300]})
                continue
            finally:
                if os.path.exists(path):
                    os.unlink(path)
            if m is None:
                div(kind, 'load_returned_none', {})
                continue
            assets, links, entry, atk = abs_of_dict(m._to_dict(), L)
            got_assets = {i: {'name': a['name'], 'type': a['type']} for i, a in assets.items()}
            if got_assets != want_assets:
                div(kind, 'assets', {'want': want_assets, 'got': got_assets})
                continue
            # defense values: every defense of the abstraction has the value stated (defaults are omitted by _to_dict)
            bad = None
            for a in m.assets:
                vals = {k: int(round(float(v) * 10)) for k, v in m.get_asset_defenses(a, include_defaults=True).items()}
                if vals != defaults[int(a.id)]:
                    bad = {'asset': int(a.id), 'want': defaults[int(a.id)], 'got': vals}
            if bad:
                div(kind, 'defenses', bad)
                continue
            if links != want_links:
                div(kind, 'links', {'missing': sorted(want_links - links)[:5], 'unexpected': sorted(links - want_links)[:5]})
                continue
            if entry != want_entry:
                div(kind, 'entry_points', {'missing': sorted(want_entry - entry)[:5], 'unexpected': sorted(entry - want_entry)[:5]})
                continue
            if set(atk) != {t['id'] for t in ab['atk']}:
                div(kind, 'attackers', {'got': sorted(atk)})
        if len(ab['assets']) >= 2 or ab['links'] or ab['entry']:
            res['nontrivial'] = json.dumps(ab, sort_keys=True)
        res['sample'] = {'lang': lang, 'assets': len(ab['assets']), 'links': len(ab['links']), 'entry_steps': len(ab['entry'])}
        return res


def replay_divergence(d):
    from harness import common
    langs = common.dump_langs()
    r = Adapter(langs=langs).run_case(d['full_case'])
    return bool(r['div']), {'divergences': [{k: v for k, v in x.items() if k in ('component', 'detail', 'features')} for x in r['div']]}
