"""Adapter: ModelSM behaviours -> real maltoolbox.model.Model; projection through the public API."""
import json
import os
import sys

from harness import materialise

NOID = 99


def canon(o):
    """Canonical form for comparison: dict keys sorted, lists that are sets sorted by their JSON."""
    return json.dumps(o, sort_keys=True)


def sort_set(xs):
    return sorted(xs, key=lambda v: json.dumps(v, sort_keys=True))


def norm_expected(obs):
    """TLC printed sets as arrays in arbitrary order: sort everything that is a set."""
    return {
        'assets': sort_set([{'h': a['h'], 'id': a['id'], 'name': a['name'], 'type': a['type'],
                             'def': dict(a['def']) if isinstance(a['def'], dict) else {},
                             'extras': a['extras']} for a in obs['assets']]),
        'assocs': sort_set([{'h': a['h'], 'cls': a['cls'], 'l': sorted(a['l']), 'r': sorted(a['r']),
                             'extras': a['extras']} for a in obs['assocs']]),
        'nbrs': sort_set([{'a': n['a'], 'f': n['f'], 'to': sorted(n['to'])} for n in obs['nbrs']]),
        'back': sort_set([{'a': b['a'], 'as': sorted(b['as'])} for b in obs['back']]),
        'atk': sort_set([{'h': t['h'], 'id': t['id'], 'name': t['name'],
                          'ep': sort_set([{'a': e['a'], 'steps': sorted(e['steps'])} for e in t['ep']])}
                         for t in obs['atk']]),
    }


class ModelDriver:
    """Drives one real Model along ModelSM actions and projects it to the specification's observation."""

    def __init__(self, ctx, name='m'):
        self.ctx = ctx
        self.L = ctx.L
        self.model = ctx.new_model(name)
        self.objs = {}          # handle -> python object
        self.rev = {}           # id(python object) -> handle
        self.ids_seen = set()
        self.names_seen = set()
        self.cls_index = {materialise.class_name(self.L, i + 1): i + 1 for i in range(len(self.L['assocs']))}
        self.fields = sorted({a['lf'] for a in self.L['assocs']} | {a['rf'] for a in self.L['assocs']})

    def bind(self, h, obj):
        self.objs[h] = obj
        self.rev[id(obj)] = h

    def hof(self, obj):
        return self.rev.get(id(obj), -1)

    # ------------------------------------------------------------------ actions
    def apply(self, act):
        from maltoolbox.model import AttackerAttachment
        op = act['op']
        m = self.model
        try:
            if op == 'AddAsset':
                if act['h'] in self.objs:
                    obj = self.objs[act['h']]          # an object the caller got back earlier (removed / rejected)
                else:
                    cls = getattr(self.ctx.ns, act['T'])
                    obj = cls(name=act['reqName']) if act['reqName'] != 'NONE' else cls()
                    self.bind(act['h'], obj)
                    if act['reqName'] != 'NONE' and act['h'] % 2 == 1:
                        self.previous_life(obj, act['T'])
                kw = {}
                if act['reqId'] != NOID:
                    kw['asset_id'] = act['reqId']
                m.add_asset(obj, allow_duplicate_names=act['allowDup'], **kw)
            elif op == 'RemoveAsset':
                m.remove_asset(self.objs[act['h']])
            elif op == 'SetDefense':
                setattr(self.objs[act['h']], act['d'], act['v'] / 10)
            elif op == 'SetAssetExtras':
                self.objs[act['h']].extras = {'k': act['x']}
            elif op == 'AddAssociation':
                if act['h'] in self.objs:
                    a = self.objs[act['h']]            # handed in again as it is
                else:
                    decl = self.L['assocs'][act['cls'] - 1]
                    a = self.ctx.assoc_class(act['cls'])()
                    self.bind(act['h'], a)
                    setattr(a, decl['lf'], [self.objs[x] for x in act['l']])
                    setattr(a, decl['rf'], [self.objs[x] for x in act['r']])
                m.add_association(a)
            elif op == 'RemoveAssociation':
                m.remove_association(self.objs[act['h']])
            elif op == 'RemoveFromAssoc':
                m.remove_asset_from_association(self.objs[act['h']], self.objs[act['ah']])
            elif op == 'SetAssocExtras':
                self.objs[act['h']].extras = {'k': act['x']}
            elif op == 'AddAttacker':
                if act['h'] in self.objs:
                    t = self.objs[act['h']]
                else:
                    t = AttackerAttachment() if act['reqName'] == 'NONE' else AttackerAttachment(name=act['reqName'])
                    self.bind(act['h'], t)
                if act['reqId'] != NOID:
                    m.add_attacker(t, attacker_id=act['reqId'])
                else:
                    m.add_attacker(t)
            elif op == 'RemoveAttacker':
                m.remove_attacker(self.objs[act['h']])
            elif op == 'AddEntryPoint':
                self.objs[act['h']].add_entry_point(self.objs[act['a']], act['s'])
            elif op == 'RemoveEntryPoint':
                self.objs[act['h']].remove_entry_point(self.objs[act['a']], act['s'])
            else:
                raise RuntimeError('unknown action ' + op)
        except RecursionError:
            return 'exc'
        except Exception as e:
            if isinstance(e, RuntimeError) and 'unknown action' in str(e):
                raise
            return 'exc'
        return 'ok'

    def previous_life(self, obj, T):
        """The object handed to add_asset may have had a life before: here it is (still) an asset of ANOTHER model and
        linked there. Like an object that comes back (ModelSM: IsBackAsset) it brings its type, name and values, and
        nothing else: no associations, no entry points."""
        try:
            other = self.ctx.new_model('elsewhere')
            other.add_asset(obj)
            for i, d in enumerate(self.L['assocs']):
                for mine, theirs, tt in ((d['lf'], d['rf'], d['rt']), (d['rf'], d['lf'], d['lt'])):
                    try:
                        partner = getattr(self.ctx.ns, tt)(name='partner')
                        other.add_asset(partner)
                        a = self.ctx.assoc_class(i + 1)()
                        setattr(a, mine, [obj])
                        setattr(a, theirs, [partner])
                        other.add_association(a)
                        self.other_models = getattr(self, 'other_models', []) + [other]
                        return
                    except Exception:
                        continue
        except Exception:
            pass

    # --------------------------------------------------------------- projection
    def project(self):
        m = self.model
        assets = []
        for a in m.assets:
            defs = m.get_asset_defenses(a, include_defaults=True)
            ex = a.extras.as_dict() if hasattr(a.extras, 'as_dict') else dict(a.extras or {})
            assets.append({'h': self.hof(a), 'id': int(a.id), 'name': str(a.name), 'type': str(a.type),
                           'def': {k: int(round(float(v) * 10)) for k, v in defs.items()},
                           'extras': int(ex.get('k', 0)) if ex else 0})
            self.ids_seen.add(int(a.id))
            self.names_seen.add(str(a.name))
        assocs = []
        for a in m.associations:
            lf, rf = [str(k) for k in m.get_association_field_names(a)]
            ex = a.extras
            ex = ex.as_dict() if hasattr(ex, 'as_dict') else (dict(ex) if ex else {})
            assocs.append({'h': self.hof(a), 'cls': self.cls_index.get(type(a).__name__, -1),
                           'l': sorted(self.hof(x) for x in getattr(a, lf)),
                           'r': sorted(self.hof(x) for x in getattr(a, rf)),
                           'extras': int(ex.get('k', 0)) if ex else 0})
        nbrs = []
        back = []
        for a in m.assets:
            for f in self.fields:
                to = m.get_associated_assets_by_field_name(a, f)
                nbrs.append({'a': self.hof(a), 'f': f, 'to': sorted({self.hof(x) for x in to})})
            back.append({'a': self.hof(a), 'as': sorted({self.hof(x) for x in a.associations})})
        atk = []
        for t in m.attackers:
            atk.append({'h': self.hof(t), 'id': t.id, 'name': t.name,
                        'ep': sort_set([{'a': self.hof(e[0]), 'steps': sorted(e[1])} for e in t.entry_points])})
        return {'assets': sort_set(assets), 'assocs': sort_set(assocs), 'nbrs': sort_set(nbrs),
                'back': sort_set(back), 'atk': sort_set(atk)}

    def lookup_mismatches(self, exp):
        """Lookups must return exactly the live assets (nothing stale, nothing missing): derived from the
        expected asset set for every id / name seen so far plus a few absent keys."""
        m = self.model
        bad = []
        by_id = {a['id']: a['h'] for a in exp['assets']}
        by_name = {a['name']: a['h'] for a in exp['assets']}
        for i in set(self.ids_seen) | set(by_id) | {-7, 0, 1, 50}:
            got = m.get_asset_by_id(i)
            want = by_id.get(i, 0)
            if (self.hof(got) if got is not None else 0) != want:
                bad.append({'lookup': 'id', 'key': i, 'want': want, 'got': self.hof(got) if got is not None else 0})
        for n in set(self.names_seen) | set(by_name) | {'absent'}:
            got = m.get_asset_by_name(n)
            want = by_name.get(n, 0)
            if (self.hof(got) if got is not None else 0) != want:
                bad.append({'lookup': 'name', 'key': n, 'want': want, 'got': self.hof(got) if got is not None else 0})
        # ModelSM!LinkExists: "is there an association of this class joining a (left) and b (right)?" for every class and
        # every ordered pair of live assets (the same predicate that rejects duplicates)
        linked = set()
        for a in exp['assocs']:
            for x in a['l']:
                for y in a['r']:
                    linked.add((a['cls'], x, y))
        inv = {v: k for k, v in self.cls_index.items()}
        live = [self.objs[a['h']] for a in exp['assets'] if a['h'] in self.objs]
        for ci, cname in inv.items():
            for x in live:
                for y in live:
                    try:
                        got = bool(m.association_exists_between_assets(cname, x, y))
                    except Exception as e:
                        got = 'raised ' + type(e).__name__
                    want = (ci, self.hof(x), self.hof(y)) in linked
                    if got != want:
                        bad.append({'lookup': 'association_exists_between_assets', 'key': [cname, self.hof(x), self.hof(y)], 'want': want, 'got': got})
        for t in exp['atk']:
            got = m.get_attacker_by_id(t['id'])
            if got is None or self.hof(got) != t['h']:
                bad.append({'lookup': 'attacker', 'key': t['id'], 'want': t['h'],
                            'got': self.hof(got) if got is not None else 0})
        return bad


def diff_obs(exp, act):
    out = {}
    for k in exp:
        if canon(exp[k]) != canon(act.get(k)):
            e = {canon(x) for x in exp[k]}
            a = {canon(x) for x in act.get(k, [])}
            out[k] = {'missing': [json.loads(x) for x in sorted(e - a)][:6],
                      'unexpected': [json.loads(x) for x in sorted(a - e)][:6]}
    return out


def features_of(act, pre):
    """Feature flags of (pre-state, action), used to classify divergences and to count coverage."""
    fs = []
    op = act['op']
    if op == 'AddAsset':
        if act['reqId'] == 0:
            fs.append('explicit_id_zero')
        if act['reqId'] != NOID and act['reqId'] < 0:
            fs.append('explicit_id_negative')
        if act.get('polName'):
            fs.append('auto_name')
        if act['res'] == 'collide':
            fs.append('rename_collision')
    if op == 'AddAssociation':
        if set(act['l']) & set(act['r']):
            fs.append('self_link')
        if len(act['l']) > 1 or len(act['r']) > 1:
            fs.append('field_has_several_members')
    if act['res'] == 'exc':
        fs.append('rejected')
    return fs


class Adapter:
    case_timeout = 20

    def __init__(self, langs=None, stop_on_div=True):
        self.langs = langs or {}

    def ctx_for(self, case):
        lang = case['lang']
        if isinstance(lang, str):
            return materialise.lang_ctx(self.langs[lang], key=lang)
        return materialise.lang_ctx(lang)

    def on_timeout(self, case):
        return {'steps': len(case['hist']), 'div': [{'kind': 'timeout', 'case': case_brief(case)}]}

    def run_case(self, case):
        ctx = self.ctx_for(case)
        drv = ModelDriver(ctx)
        hist = case['hist']
        res = {'steps': 0, 'div': [], 'features': []}
        acts = [s['act'] for s in hist]
        changing = 0
        prev = None
        for k, step in enumerate(hist):
            act = step['act']
            exp = norm_expected(step['obs'])
            pre_live_ids = {a['id'] for a in (prev['assets'] if prev else [])}
            pre_live_names = {a['name'] for a in (prev['assets'] if prev else [])}
            if act['op'] in ('AddAsset', 'AddAssociation', 'AddAttacker') and act.get('h') in drv.objs:
                res['features'].append('readd_' + act['op'][3:].lower() + ('' if act['res'] == 'ok' else '_rejected'))
            got = drv.apply(act)
            res['steps'] += 1
            res['features'].extend(features_of(act, prev))
            actual = drv.project()
            if act['res'] == 'collide':
                # allowed: rejection with unchanged state, or success with some fresh name
                ok = False
                if got == 'exc' and prev is not None and canon(actual) == canon(prev):
                    ok = True
                elif got == 'exc' and prev is None:
                    ok = True
                elif got == 'ok':
                    names = [a['name'] for a in actual['assets']]
                    ids = [a['id'] for a in actual['assets']]
                    ok = len(set(names)) == len(names) and len(set(ids)) == len(ids)
                if not ok:
                    res['div'].append(self.div(case, k, 'AddAsset', 'names', exp, actual, got,
                                               ['rename_collision']))
                break
            if got != act['res']:
                res['div'].append(self.div(case, k, act['op'], 'outcome', exp, actual, got, features_of(act, prev)))
                break
            d = diff_obs(exp, actual)
            if d:
                # a policy-chosen id / name that differs but is legal makes the rest inconclusive
                if act['op'] in ('AddAsset', 'AddAttacker') and (act.get('polId') or act.get('polName')) and got == 'ok':
                    obj = drv.objs.get(act['h'])
                    if act['op'] == 'AddAsset':
                        legal = int(obj.id) not in pre_live_ids and str(obj.name) not in pre_live_names \
                            and (act['polId'] or int(obj.id) == act['id']) \
                            and (act['polName'] or str(obj.name) == act['name'])
                        if legal and (int(obj.id) != act['id'] or str(obj.name) != act['name']):
                            leak = self.rejected_call_leaks(ctx, hist, k, (int(obj.id), str(obj.name)))
                            if leak:
                                res['div'].append(self.div(case, k, act['op'], 'rejected_call_changed_later_behaviour',
                                                           exp, actual, got, features_of(act, prev) + ['after_rejected_call'], leak))
                            else:
                                res['inconclusive'] = True
                            break
                    else:
                        pre_atk_ids = {t['id'] for t in (prev['atk'] if prev else [])}
                        legal = obj.id not in pre_atk_ids and (act['polId'] or obj.id == act['id']) \
                            and (act['polName'] or obj.name == act['name'])
                        if legal and (obj.id != act['id'] or obj.name != act['name']):
                            res['inconclusive'] = True
                            break
                comp = sorted(d)[0]
                res['div'].append(self.div(case, k, act['op'], comp, exp, actual, got, features_of(act, prev), d))
                break
            lm = drv.lookup_mismatches(exp)
            if lm:
                res['div'].append(self.div(case, k, act['op'], 'lookup', exp, actual, got, features_of(act, prev),
                                           {'lookup': lm[:6]}))
                break
            if prev is None or canon(exp) != canon(prev):
                changing += 1
            prev = exp
        if changing >= 2:
            res['nontrivial'] = case_hash_acts(acts)
        res['sample'] = {'lang': case['lang'] if isinstance(case['lang'], str) else case['lang']['id'],
                         'acts': acts}
        return res

    def rejected_call_leaks(self, ctx, hist, k, chosen):
        """'An operation that raises leaves the observable state unchanged': the value the code chooses at step k
        (default id / automatic name) must be the same when the rejected calls before it are left out."""
        if not any(s['act']['res'] == 'exc' for s in hist[:k]):
            return None
        twin = ModelDriver(ctx)
        for s in hist[:k]:
            if s['act']['res'] == 'exc':
                continue
            twin.apply(s['act'])
        if twin.apply(hist[k]['act']) != 'ok':
            return None
        obj = twin.objs.get(hist[k]['act']['h'])
        other = (int(obj.id), str(obj.name))
        if other != chosen:
            return {'with_rejected_calls': list(chosen), 'without_rejected_calls': list(other)}
        return None

    def div(self, case, k, op, comp, exp, actual, got, feats, d=None):
        return {'kind': 'divergence', 'step': k, 'action': op, 'component': comp, 'features': sorted(set(feats)),
                'got_outcome': got, 'expected_outcome': case['hist'][k]['act']['res'],
                'diff': d, 'case': case_brief(case, upto=k), 'actual': actual if comp != 'outcome' else None,
                'expected': exp, 'adapter': 'harness.replay_model'}


def case_brief(case, upto=None):
    h = case['hist'] if upto is None else case['hist'][:upto + 1]
    return {'lang': case['lang'] if isinstance(case['lang'], str) else case['lang'].get('id'),
            'acts': [s['act'] for s in h]}


def case_hash_acts(acts):
    import hashlib
    return hashlib.sha1(json.dumps(acts, sort_keys=True).encode()).hexdigest()[:16]


def replay_divergence(d):
    """Re-run the stored action sequence on the current tree; compare with the stored expected observation."""
    from harness import common
    langs = common.dump_langs()
    ctx = materialise.lang_ctx(langs[d['case']['lang']], key=d['case']['lang'])
    drv = ModelDriver(ctx)
    outcomes = []
    for act in d['case']['acts']:
        outcomes.append(drv.apply(act))
    actual = drv.project()
    exp = d.get('expected')
    last = d['case']['acts'][-1]
    report = {'acts': d['case']['acts'], 'outcomes': outcomes, 'expected_last_outcome': last['res'],
              'diff': diff_obs(exp, actual) if exp else None}
    still = (last['res'] in ('ok', 'exc') and outcomes[-1] != last['res']) or bool(report['diff'])
    return still, report
