"""Adapter (C02, uniqueness clause along API histories): a ModelSM behaviour - including steps at which the documented
rename policy collides with a live name - is replayed into the real Model; the attack graph generated from whatever model
results must have unique node ids and unique full names with exact lookups, and one node per (asset, exposed step)."""
import json

from harness import materialise
from harness.replay_model import ModelDriver


class Adapter:
    case_timeout = 30

    def __init__(self, langs=None, each_step=False, **kw):
        self.langs = langs or {}
        self.each_step = each_step

    def on_timeout(self, case):
        return {'steps': 1, 'div': [{'kind': 'timeout', 'action': 'Generate', 'component': 'timeout', 'features': [],
                                     'case': {'lang': case['lang']}, 'adapter': 'harness.replay_model_graph'}]}

    def run_case(self, case):
        from maltoolbox.attackgraph import AttackGraph
        lang = case['lang']
        ctx = materialise.lang_ctx(self.langs[lang], key=lang)
        drv = ModelDriver(ctx)
        res = {'steps': 1, 'div': [], 'features': []}
        acts = [s['act'] for s in case['hist']]
        for a in acts:
            drv.apply(a)
            if self.each_step and drv.model.assets:
                # a graph is generated (and dropped) after every step, as a user inspecting the model would: whatever the
                # library remembers from one generation must not change the next
                try:
                    AttackGraph(ctx.lang_graph, drv.model)
                except Exception:
                    pass
        if any(a['res'] == 'collide' for a in acts):
            res['features'].append('rename_collision')
        m = drv.model
        if not m.assets:
            return res
        try:
            g = AttackGraph(ctx.lang_graph, m)
        except Exception as e:
            res['div'].append(self.div(case, 'exception', {'error': repr(e)[:300]}, res['features']))
            return res
        # the graph of the model reached by this history against what the specification assigns to the final state
        if case.get('exp', {}).get('nodes') and not any(a['res'] == 'collide' for a in acts):
            from harness.replay_graph import check_graph
            gcase = {'assets': case['final'], 'assocs': [], 'exp': case['exp']}
            for comp, detail, feats in check_graph(gcase, ctx, m, drv.objs, g)[:3]:
                res['div'].append(self.div(case, comp, detail, list(feats) + ['after_history']))
        names = [n.full_name for n in g.nodes]
        ids = [n.id for n in g.nodes]
        if len(set(names)) != len(names):
            dup = sorted({x for x in names if names.count(x) > 1})
            res['div'].append(self.div(case, 'full_names_unique', {'duplicates': dup[:6], 'asset_names': [str(a.name) for a in m.assets]}, res['features']))
        if len(set(ids)) != len(ids):
            res['div'].append(self.div(case, 'ids_unique', {'ids': ids[:20]}, res['features']))
        for n in g.nodes:
            if g.get_node_by_full_name(n.full_name) is not n and len(set(names)) == len(names):
                res['div'].append(self.div(case, 'lookup_name', {'node': n.full_name}, res['features']))
                break
            if g.get_node_by_id(n.id) is not n:
                res['div'].append(self.div(case, 'lookup_id', {'node': n.full_name}, res['features']))
                break
        want = sum(len(ctx.lang_graph.get_asset_by_name(str(a.type)).attack_steps) for a in m.assets)
        if want != len(g.nodes):
            res['div'].append(self.div(case, 'nodes', {'want': want, 'got': len(g.nodes)}, res['features']))
        if len(m.assets) >= 2:
            res['nontrivial'] = json.dumps(acts, sort_keys=True)
        res['sample'] = {'lang': lang, 'acts': acts}
        res['div'] = res['div'][:2]
        return res

    def div(self, case, comp, detail, feats):
        return {'kind': 'divergence', 'action': 'Generate', 'component': comp, 'features': sorted(set(feats)), 'detail': detail,
                'case': {'lang': case['lang'], 'acts': [s['act'] for s in case['hist']]}, 'full_case': case,
                'adapter': 'harness.replay_model_graph'}


def replay_divergence(d):
    from harness import common
    r = Adapter(langs=common.dump_langs()).run_case(d['full_case'])
    return bool(r['div']), {'divergences': [{k: v for k, v in x.items() if k in ('component', 'detail')} for x in r['div']]}
