"""Adapter (C17): single-token mutations of a valid program -> MAL text -> the repository's own ANTLR lexer / parser with
a counting error listener decides whether the text is erroneous (as the property prescribes); if it is, compile must
raise. The specification's recogniser of mal.g4 is cross-checked against ANTLR (disagreements are counted, never judged)."""
import json
import os
import shutil

from harness.replay_syntax import render, write_files

INSERT_TEXT = {'ID': {'k': 'ID', 'v': 'zz9'}}


def apply_mut(toks, m):
    t = list(toks)
    p = m['pos'] - 1
    if m['op'] == 'delete':
        return t[:p] + t[p + 1:]
    if m['op'] == 'insert':
        tok = INSERT_TEXT.get(m['kind'], {'k': m['kind'], 'v': ''})
        return t[:p] + [tok] + t[p:]
    if m['op'] == 'truncate':
        return t[:m['pos']]
    if m['op'] == 'replace':
        t[p] = {'k': m['kind'], 'v': ''}
        return t
    return t


def antlr_errors(path):
    from antlr4 import FileStream, CommonTokenStream
    from antlr4.error.ErrorListener import ErrorListener
    from maltoolbox.language.compiler.mal_lexer import malLexer
    from maltoolbox.language.compiler.mal_parser import malParser

    class Count(ErrorListener):
        def __init__(self):
            self.n = 0

        def syntaxError(self, recognizer, offendingSymbol, line, column, msg, e):
            self.n += 1
    c = Count()
    lexer = malLexer(FileStream(path, encoding='utf-8'))
    lexer.removeErrorListeners()
    lexer.addErrorListener(c)
    parser = malParser(CommonTokenStream(lexer))
    parser.removeErrorListeners()
    parser.addErrorListener(c)
    parser.mal()
    return c.n


class Adapter:
    case_timeout = 60

    def __init__(self, **kw):
        pass

    def on_timeout(self, case):
        return {'steps': 1, 'div': [{'kind': 'timeout', 'action': 'Compile', 'component': 'timeout', 'features': [],
                                     'case': {'lang': case['lang'], 'mut': case['mut']}, 'adapter': 'harness.replay_mut'}]}

    def run_case(self, case):
        from maltoolbox.language.compiler import MalCompiler
        res = {'steps': 1, 'div': [], 'features': []}
        m = case['mut']
        files = [dict(f) for f in case['files']]
        fi = case['file'] - 1
        files[fi] = {'name': files[fi]['name'], 'toks': apply_mut(files[fi]['toks'], m)}
        root = os.path.join(os.getcwd(), 'mut-%d' % os.getpid())
        shutil.rmtree(root, ignore_errors=True)
        os.makedirs(root)
        try:
            main = write_files(files, root)
            target = os.path.join(root, files[fi]['name'])
            n = antlr_errors(target)
            res['features'].append('op_' + m['op'])
            res['features'].append('antlr_erroneous' if n else 'antlr_clean')
            if bool(case['accepts']) != (n == 0) and m['op'] != 'none':
                res['features'].append('oracle_disagreement')
            raised = None
            compiler = MalCompiler()
            try:
                out = compiler.compile(main)
            except Exception as e:
                raised = repr(e)[:200]
            if n > 0 and raised is not None:
                # the same compiler object asked again must refuse again (nothing survives a failed compilation)
                try:
                    compiler.compile(main)
                    res['div'].append({'kind': 'divergence', 'action': 'Compile', 'component': 'malformed_source_compiled_on_second_attempt',
                                       'features': ['op_' + m['op'], 'file_%d' % case['file'], 'layout_' + case['layout']],
                                       'detail': {'antlr_errors': n, 'mutation': m},
                                       'case': {'lang': case['lang'], 'layout': case['layout'], 'file': case['file'], 'mut': m},
                                       'full_case': case, 'adapter': 'harness.replay_mut'})
                except Exception:
                    pass
            if n > 0 and raised is None:
                res['div'].append({'kind': 'divergence', 'action': 'Compile', 'component': 'malformed_source_compiled',
                                   'features': ['op_' + m['op'], 'file_%d' % case['file'], 'layout_' + case['layout']],
                                   'detail': {'antlr_errors': n, 'mutation': m, 'text': render(files[fi]['toks'])[:400]},
                                   'case': {'lang': case['lang'], 'layout': case['layout'], 'file': case['file'], 'mut': m},
                                   'full_case': case, 'adapter': 'harness.replay_mut'})
            if n == 0 and raised is not None and m['op'] == 'none':
                res['div'].append({'kind': 'divergence', 'action': 'Compile', 'component': 'valid_source_rejected',
                                   'features': [], 'detail': {'error': raised},
                                   'case': {'lang': case['lang'], 'layout': case['layout'], 'file': case['file'], 'mut': m},
                                   'full_case': case, 'adapter': 'harness.replay_mut'})
            if n > 0:
                res['nontrivial'] = json.dumps([case['lang'], case['layout'], case['file'], m], sort_keys=True)
            res['sample'] = {'lang': case['lang'], 'layout': case['layout'], 'mutation': m, 'antlr_errors': n,
                             'compile': 'raised' if raised else 'returned', 'recogniser_accepts': case['accepts']}
        finally:
            shutil.rmtree(root, ignore_errors=True)
        return res


def replay_divergence(d):
    r = Adapter().run_case(d['full_case'])
    return bool(r['div']), {'divergences': [{k: v for k, v in x.items() if k in ('component', 'detail')} for x in r['div']]}
