"""Adapter (C19): ModelSM states with the nodes / relationships the specification says an ingestion must send
(NeoNodes, NeoRels) -> real Model -> ingest_model against the recording stand-in; then get_model against the same
stand-in must reconstruct the assets and pairwise links (AbsLegacy without defenses / attackers)."""
import json
import os

from harness import materialise, neo_stub
from harness.replay_model import ModelDriver, norm_expected, diff_obs
from harness.replay_legacy import abs_of_dict


class Adapter:
    case_timeout = 40

    def __init__(self, langs=None, **kw):
        self.langs = langs or {}
        self.seen = set()

    def on_timeout(self, case):
        return {'steps': 1, 'div': [{'kind': 'timeout', 'action': 'Neo4j', 'component': 'timeout', 'features': [],
                                     'case': {'lang': case['lang']}, 'adapter': 'harness.replay_neo'}]}

    def run_case(self, case):
        lang = case['lang']
        L = self.langs[lang]
        ctx = materialise.lang_ctx(L, key=lang)
        res = {'steps': 0, 'div': [], 'features': []}
        hist = case.get('hist')
        if hist is not None and (not hist or hist[-1]['act']['res'] == 'collide'):
            return res
        key = lang + json.dumps([case['abs']['assets'], case['abs']['links']], sort_keys=True)
        if key in self.seen:
            return res
        self.seen.add(key)
        if hist is None:
            from harness.replay_graph import build_model
            m, _objs = build_model(ctx, case['assets'], case['assocs'])      # a model state enumerated directly (Gen_Graph)
            hist = []
        else:
            exp = norm_expected(hist[-1]['obs'])
            drv = ModelDriver(ctx)
            for s in hist:
                if drv.apply(s['act']) != s['act']['res']:
                    res['inconclusive'] = True
                    return res
            if diff_obs(exp, drv.project()):
                res['inconclusive'] = True
                return res
            m = drv.model
        neo = neo_stub.install()
        feats = set()
        pairs = {}
        for l in case['abs']['links']:
            pairs.setdefault(frozenset((l['l'], l['r'])), set()).add(l['cls'])
        if any(len(v) > 1 for v in pairs.values()):
            feats.add('two_associations_between_one_pair')
        if any(l['l'] == l['r'] for l in case['abs']['links']):
            feats.add('self_link')
        res['features'] = sorted(feats)

        def div(comp, detail):
            if len(res['div']) < 3:
                res['div'].append({'kind': 'divergence', 'action': 'Neo4j', 'component': comp, 'features': sorted(feats),
                                   'detail': detail, 'case': {'lang': lang, 'acts': [s['act'] for s in hist]},
                                   'full_case': case, 'adapter': 'harness.replay_neo'})
        res['steps'] += 1
        try:
            neo.ingest_model(m, 'bolt://stub', 'u', 'p', 'db', delete=True)
        except Exception as e:
            div('ingest_raises', {'error': repr(e)[:300]})
            return res
        st = neo_stub.FakeGraph.STORE['db']
        got_nodes = sorted(json.dumps({'id': int(dict(n)['asset_id']), 'name': dict(n)['name'], 'type': dict(n)['type'],
                                       'label': sorted(n.labels)}, sort_keys=True) for n in st['nodes'])
        want_nodes = sorted(json.dumps({'id': n['id'], 'name': n['name'], 'type': n['type'], 'label': [n['type']]}, sort_keys=True)
                            for n in case['neo']['nodes'])
        if got_nodes != want_nodes:
            div('nodes', {'want': want_nodes[:6], 'got': got_nodes[:6]})
        got_rels = sorted(json.dumps([int(dict(r.start_node)['asset_id']), type(r).__name__, int(dict(r.end_node)['asset_id'])])
                          for r in st['rels'])
        want_rels = sorted(json.dumps([r['src'], r['label'], r['dst']]) for r in case['neo']['rels'])
        if got_rels != want_rels:
            div('relationships', {'missing': sorted(set(want_rels) - set(got_rels))[:6],
                                  'unexpected': sorted(set(got_rels) - set(want_rels))[:6],
                                  'duplicates': len(got_rels) - len(set(got_rels))})
        # read back
        res['steps'] += 1
        try:
            m2 = neo.get_model('bolt://stub', 'u', 'p', 'db', ctx.lang_graph, ctx.factory)
        except Exception as e:
            div('read_back_raises', {'error': repr(e)[:300]})
            return res
        if m2 is None:
            div('read_back_returned_none', {})
            return res
        assets, links, entry, atk = abs_of_dict(m2._to_dict(), L)
        want_assets = {a['id']: {'name': a['name'], 'type': a['type']} for a in case['abs']['assets']}
        got_assets = {i: {'name': a['name'], 'type': a['type']} for i, a in assets.items()}
        if got_assets != want_assets:
            div('read_back_assets', {'want': want_assets, 'got': got_assets})
        want_links = {(l['cls'], l['l'], l['r']) for l in case['abs']['links']}
        if links != want_links:
            div('read_back_links', {'missing': sorted(want_links - links)[:6], 'unexpected': sorted(links - want_links)[:6]})
        if case['abs']['links']:
            res['nontrivial'] = json.dumps([case['abs']['assets'], case['abs']['links']], sort_keys=True)
        res['sample'] = {'lang': lang, 'nodes': len(case['neo']['nodes']), 'relationships': len(case['neo']['rels'])}
        return res


def replay_divergence(d):
    from harness import common
    langs = common.dump_langs()
    r = Adapter(langs=langs).run_case(d['full_case'])
    return bool(r['div']), {'divergences': [{k: v for k, v in x.items() if k in ('component', 'detail', 'features')} for x in r['div']]}
