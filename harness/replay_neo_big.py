"""Adapter (C19, larger attack graphs): the labelled graph families of Gen_AprioriBig (12 to hundreds of nodes, model-less
graphs built through add_node) -> calculate_viability_and_necessity -> ingest_attack_graph against the recording
stand-in: exactly one database node per step (name, type, labels as analysed, defense status) and exactly one
relationship per edge (p, c) with p in par[c] - in several insertion orders, so that the node ids (assigned on arrival)
are permuted against the graph structure and have any digit pattern."""
import collections
import random

from harness import neo_stub
from harness.replay_apriori import build


class Adapter:
    case_timeout = 60

    def __init__(self, seed=1, orders=4, **kw):
        self.rng = random.Random(seed)
        self.orders = orders

    def on_timeout(self, case):
        return {'steps': 1, 'div': [{'kind': 'timeout', 'action': 'Neo4jGraph', 'component': 'timeout', 'features': ['big'],
                                     'case': {'family': case.get('family')}, 'adapter': 'harness.replay_neo_big'}]}

    def run_case(self, case):
        from maltoolbox.attackgraph.analyzers.apriori import calculate_viability_and_necessity
        n = case['n']
        ident = list(range(1, n + 1))
        orders = [ident, list(reversed(ident))]
        for _ in range(self.orders - 2):
            sh = ident[:]
            self.rng.shuffle(sh)
            orders.append(sh)
        res = {'steps': 0, 'div': [], 'features': sorted(case['flags'])}
        want_rels = collections.Counter(('n%d' % p, 'n%d' % c) for c in ident for p in case['par'][c - 1])
        neo = neo_stub.install()
        for order in orders:
            g, nodes = build(case, order)
            calculate_viability_and_necessity(g)
            res['steps'] += 1

            def div(comp, detail):
                res['div'].append({'kind': 'divergence', 'action': 'Neo4jGraph', 'component': comp, 'features': ['big'],
                                   'detail': dict(detail, order_head=order[:12], family=case.get('family')),
                                   'case': {k: case[k] for k in ('n', 'kind', 'par', 'st', 'dist', 'V', 'N', 'flags', 'family') if k in case},
                                   'adapter': 'harness.replay_neo_big'})
            try:
                neo.ingest_attack_graph(g, 'bolt://stub', 'u', 'p', 'db', delete=True)
            except Exception as e:
                div('big_ingest_raises', {'error': repr(e)[:300]})
                return res
            st = neo_stub.FakeGraph.STORE['db']
            got_nodes = collections.Counter(dict(x).get('name') for x in st['nodes'])
            if got_nodes != collections.Counter('n%d' % i for i in ident):
                div('big_nodes', {'missing': sorted(set('n%d' % i for i in ident) - set(got_nodes))[:6],
                                  'duplicated': sorted(k for k, v in got_nodes.items() if v > 1)[:6]})
                return res
            for x in st['nodes']:
                d = dict(x)
                i = int(d['name'][1:])
                kind = case['kind'][i - 1]
                if d.get('type') != kind or d.get('is_viable') != str(case['V'][i - 1]) or \
                        d.get('is_necessary') != str(case['N'][i - 1]) or d.get('full_name') != nodes[i].full_name:
                    div('big_node_attributes', {'node': d['name'], 'got': {k: str(v) for k, v in d.items()},
                                                'want': [kind, case['V'][i - 1], case['N'][i - 1]]})
                    return res
                if kind == 'defense' and int(round(float(d.get('defense_status')) * 10)) != case['st'][i - 1]:
                    div('big_node_defense_status', {'node': d['name'], 'got': d.get('defense_status')})
                    return res
            got_rels = collections.Counter((dict(r.start_node)['name'], dict(r.end_node)['name']) for r in st['rels'])
            if got_rels != want_rels:
                div('big_relationships', {'missing': sorted((want_rels - got_rels).elements())[:6],
                                          'unexpected': sorted((got_rels - want_rels).elements())[:6],
                                          'ids': {k: nodes[int(k[1:])].id for e in
                                                  sorted(((want_rels - got_rels) + (got_rels - want_rels)).elements())[:4] for k in e}})
                return res
        if want_rels:
            import json
            res['nontrivial'] = json.dumps(case.get('family'), sort_keys=True)
        res['sample'] = {'family': case.get('family'), 'nodes': n, 'relationships': sum(want_rels.values())}
        return res


def replay_divergence(d):
    r = Adapter().run_case(d['case'])
    return bool(r['div']), {'divergences': [{k: v for k, v in x.items() if k in ('component', 'detail')} for x in r['div']]}
