"""Adapter (C19, attack-graph part): (language, model) pairs with the expected attack graph -> real AttackGraph ->
ingest_attack_graph against the recording stand-in: one database node per attack step with its attributes, one
relationship per edge."""
import json

from harness import materialise, neo_stub
from harness.replay_graph import build_model


class Adapter:
    case_timeout = 40

    def __init__(self, langs=None, **kw):
        self.langs = langs or {}

    def on_timeout(self, case):
        return {'steps': 1, 'div': [{'kind': 'timeout', 'action': 'Neo4jGraph', 'component': 'timeout', 'features': [],
                                     'case': {'lang': case['lang']}, 'adapter': 'harness.replay_neo_graph'}]}

    def run_case(self, case):
        from maltoolbox.attackgraph import AttackGraph
        lang = case['lang']
        ctx = materialise.lang_ctx(self.langs[lang], key=lang)
        res = {'steps': 1, 'div': [], 'features': []}
        m, objs = build_model(ctx, case['assets'], case['assocs'])
        g = AttackGraph(ctx.lang_graph, m)
        neo = neo_stub.install()

        def div(comp, detail):
            if len(res['div']) < 3:
                res['div'].append({'kind': 'divergence', 'action': 'Neo4jGraph', 'component': comp, 'features': [],
                                   'detail': detail, 'case': {'lang': lang, 'assets': case['assets'], 'assocs': case['assocs']},
                                   'full_case': case, 'adapter': 'harness.replay_neo_graph'})
        names = {a['h']: a['name'] for a in case['assets']}

        def check(gone, tag):
            """one ingestion compared with the expected graph minus the removed steps (GraphSM!DoRemove: the node and
            its edges disappear, every other node keeps its id - so ids have gaps and differ from list positions)"""
            try:
                neo.ingest_attack_graph(g, 'bolt://stub', 'u', 'p', 'db', delete=True)
            except Exception as e:
                div(tag + 'ingest_raises', {'error': repr(e)[:300]})
                return False
            st = neo_stub.FakeGraph.STORE['db']
            want = {}
            for n in case['exp']['nodes']:
                fn = names[n['asset']] + ':' + n['step']
                if fn not in gone:
                    want[fn] = n
            got = {}
            for n in st['nodes']:
                d = dict(n)
                if d.get('full_name') in got:
                    div(tag + 'duplicate_node', {'full_name': d.get('full_name')})
                got[d.get('full_name')] = (n, d)
            if sorted(got) != sorted(want):
                div(tag + 'nodes', {'missing': sorted(set(want) - set(got))[:6], 'unexpected': sorted(set(got) - set(want))[:6]})
                return False
            for fn, w in want.items():
                n, d = got[fn]
                if d.get('name') != w['step'] or d.get('type') != w['kind'] or sorted(n.labels) != [fn.rsplit(':', 1)[0]]:
                    div(tag + 'node_attributes', {'node': fn, 'got': {k: str(v) for k, v in d.items()}, 'labels': sorted(n.labels)})
                    break
                if w['kind'] == 'defense':
                    if int(round(float(d.get('defense_status')) * 10)) != w['dstat']:
                        div(tag + 'node_defense_status', {'node': fn, 'got': d.get('defense_status'), 'want': w['dstat']})
                        break
                for k in ('ttc', 'is_necessary', 'is_viable', 'compromised_by'):
                    if k not in d:
                        div(tag + 'node_attribute_missing', {'node': fn, 'attribute': k})
            rels = [(dict(r.start_node)['full_name'], dict(r.end_node)['full_name']) for r in st['rels']]
            lo = {(names[e[0]] + ':' + e[1], names[e[2]] + ':' + e[3]) for e in case['exp']['lo']}
            hi = {(names[e[0]] + ':' + e[1], names[e[2]] + ':' + e[3]) for e in case['exp']['hi']}
            lo = {e for e in lo if e[0] not in gone and e[1] not in gone}
            hi = {e for e in hi if e[0] not in gone and e[1] not in gone}
            rs = set(rels)
            if (lo - rs) or (rs - hi):
                div(tag + 'relationships', {'missing': sorted(lo - rs)[:6], 'unexpected': sorted(rs - hi)[:6]})
            return len(rs)
        nrel = check(set(), '')
        if nrel is False or res['div']:
            return res
        # the same graph after a step was removed from it (first node: every later id is now ahead of its position)
        if len(g.nodes) >= 2:
            victim = g.nodes[0]
            gone = {victim.full_name}
            g.remove_node(victim)
            res['steps'] += 1
            check(gone, 'after_remove_node_')
        want = [n for n in case['exp']['nodes']]
        rs = range(nrel)
        if case['exp']['hi']:
            res['nontrivial'] = json.dumps([lang, case['assets'], case['assocs']], sort_keys=True)
        res['sample'] = {'lang': lang, 'nodes': len(want), 'relationships': len(rs)}
        return res


def replay_divergence(d):
    from harness import common
    langs = common.dump_langs()
    r = Adapter(langs=langs).run_case(d['full_case'])
    return bool(r['div']), {'divergences': [{k: v for k, v in x.items() if k in ('component', 'detail')} for x in r['div']]}
