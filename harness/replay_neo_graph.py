"""Adapter (C19, attack-graph part): (language, model) pairs with the expected attack graph -> real AttackGraph ->
ingest_attack_graph against the recording stand-in: one database node per attack step with its attributes, one
relationship per edge."""
import json

from harness import materialise, neo_stub
from harness.replay_graph import build_model


class Adapter:
    case_timeout = 40

    def __init__(self, langs=None, **kw):
        self.langs = langs or {}

    def on_timeout(self, case):
        return {'steps': 1, 'div': [{'kind': 'timeout', 'action': 'Neo4jGraph', 'component': 'timeout', 'features': [],
                                     'case': {'lang': case['lang']}, 'adapter': 'harness.replay_neo_graph'}]}

    def run_case(self, case):
        from maltoolbox.attackgraph import AttackGraph
        lang = case['lang']
        ctx = materialise.lang_ctx(self.langs[lang], key=lang)
        res = {'steps': 1, 'div': [], 'features': []}
        m, objs = build_model(ctx, case['assets'], case['assocs'])
        g = AttackGraph(ctx.lang_graph, m)
        neo = neo_stub.install()

        def div(comp, detail):
            if len(res['div']) < 3:
                res['div'].append({'kind': 'divergence', 'action': 'Neo4jGraph', 'component': comp, 'features': [],
                                   'detail': detail, 'case': {'lang': lang, 'assets': case['assets'], 'assocs': case['assocs']},
                                   'full_case': case, 'adapter': 'harness.replay_neo_graph'})
        try:
            neo.ingest_attack_graph(g, 'bolt://stub', 'u', 'p', 'db', delete=True)
        except Exception as e:
            div('ingest_raises', {'error': repr(e)[:300]})
            return res
        st = neo_stub.FakeGraph.STORE['db']
        names = {a['h']: a['name'] for a in case['assets']}
        want = {}
        for n in case['exp']['nodes']:
            want[names[n['asset']] + ':' + n['step']] = n
        got = {}
        for n in st['nodes']:
            d = dict(n)
            if d.get('full_name') in got:
                div('duplicate_node', {'full_name': d.get('full_name')})
            got[d.get('full_name')] = (n, d)
        if sorted(got) != sorted(want):
            div('nodes', {'missing': sorted(set(want) - set(got))[:6], 'unexpected': sorted(set(got) - set(want))[:6]})
            return res
        for fn, w in want.items():
            n, d = got[fn]
            if d.get('name') != w['step'] or d.get('type') != w['kind'] or sorted(n.labels) != [fn.rsplit(':', 1)[0]]:
                div('node_attributes', {'node': fn, 'got': {k: str(v) for k, v in d.items()}, 'labels': sorted(n.labels)})
                break
            if w['kind'] == 'defense':
                if int(round(float(d.get('defense_status')) * 10)) != w['dstat']:
                    div('node_defense_status', {'node': fn, 'got': d.get('defense_status'), 'want': w['dstat']})
                    break
            for k in ('ttc', 'is_necessary', 'is_viable', 'compromised_by'):
                if k not in d:
                    div('node_attribute_missing', {'node': fn, 'attribute': k})
        rels = [(dict(r.start_node)['full_name'], dict(r.end_node)['full_name']) for r in st['rels']]
        lo = {(names[e[0]] + ':' + e[1], names[e[2]] + ':' + e[3]) for e in case['exp']['lo']}
        hi = {(names[e[0]] + ':' + e[1], names[e[2]] + ':' + e[3]) for e in case['exp']['hi']}
        rs = set(rels)
        if (lo - rs) or (rs - hi):
            div('relationships', {'missing': sorted(lo - rs)[:6], 'unexpected': sorted(rs - hi)[:6]})
        if case['exp']['hi']:
            res['nontrivial'] = json.dumps([lang, case['assets'], case['assocs']], sort_keys=True)
        res['sample'] = {'lang': lang, 'nodes': len(want), 'relationships': len(rs)}
        return res


def replay_divergence(d):
    from harness import common
    langs = common.dump_langs()
    r = Adapter(langs=langs).run_case(d['full_case'])
    return bool(r['div']), {'divergences': [{k: v for k, v in x.items() if k in ('component', 'detail')} for x in r['div']]}
