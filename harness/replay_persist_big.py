"""Adapter (C10 / C14, larger graphs): the labelled graph families of Gen_AprioriBig -> real AttackGraph (add_node,
two arrival orders), analysed, then
  mode 'file': save_to_file (.json and .yml) / load_from_file without a model: the loaded graph has exactly the steps of
               the case (name, type, id, labels as the specification computes them, defense / existence status, TTC)
               and exactly the edges par[c] -> c (the order of the node list is not compared: the property does not
               promise it and the file is keyed by name); its serialisation equals the original's;
  mode 'copy': copy.deepcopy: the copy describes the same graph (same comparison), shares no node object with the
               original, and pruning the copy / flipping its labels leaves the original's serialisation unchanged
               (and the other way round)."""
import collections
import copy
import json
import os
import random

from harness.replay_apriori import build


def describe(g):
    """(name -> (type, id, viable, necessary, defense status, existence status, ttc)), multiset of edges by name from
    the children lists and from the parents lists, stored order"""
    nodes = {}
    for x in g.nodes:
        nodes[x.name] = (x.type, x.id, bool(x.is_viable), bool(x.is_necessary), x.defense_status, x.existence_status,
                         json.dumps(x.ttc, sort_keys=True))
    ch = collections.Counter((x.name, c.name) for x in g.nodes for c in x.children)
    pa = collections.Counter((p.name, x.name) for x in g.nodes for p in x.parents)
    return nodes, ch, pa, [x.name for x in g.nodes]


class Adapter:
    case_timeout = 90

    def __init__(self, seed=1, mode='file', **kw):
        self.rng = random.Random(seed)
        self.mode = mode

    def on_timeout(self, case):
        return {'steps': 1, 'div': [{'kind': 'timeout', 'action': 'SaveLoad' if self.mode == 'file' else 'DeepCopy', 'component': 'timeout',
                                     'features': ['big'], 'case': {'family': case.get('family')}, 'adapter': 'harness.replay_persist_big'}]}

    def run_case(self, case):
        from maltoolbox.attackgraph import AttackGraph
        from maltoolbox.attackgraph.analyzers.apriori import (calculate_viability_and_necessity,
                                                              prune_unviable_and_unnecessary_nodes)
        n = case['n']
        ident = list(range(1, n + 1))
        sh = ident[:]
        self.rng.shuffle(sh)
        action = 'SaveLoad' if self.mode == 'file' else 'DeepCopy'
        res = {'steps': 0, 'div': [], 'features': sorted(case['flags'])}
        want_edges = collections.Counter(('n%d' % p, 'n%d' % c) for c in ident for p in case['par'][c - 1])
        for order in (ident, sh):
            g, nodes = build(case, order)
            calculate_viability_and_necessity(g)

            def div(comp, detail):
                res['div'].append({'kind': 'divergence', 'action': action, 'component': comp, 'features': ['big'],
                                   'detail': dict(detail, order_head=order[:12], family=case.get('family')), 'mode': self.mode,
                                   'case': {k: case[k] for k in ('n', 'kind', 'par', 'st', 'dist', 'V', 'N', 'flags', 'family', 'prunable', 'supp') if k in case},
                                   'adapter': 'harness.replay_persist_big'})

            def matches_case(h, tag):
                hn, hc, hp, hord = describe(h)
                # (a file does not promise the stored order of the nodes: the loaded list is compared as a set)
                if (sorted(hord) if tag.startswith('big_loaded') else hord) != (sorted('n%d' % i for i in order) if tag.startswith('big_loaded') else ['n%d' % i for i in order]):
                    div(tag + '_node_list', {'got_head': hord[:8], 'nodes': [len(hord), n]})
                    return False
                for k, i in enumerate(order):
                    t = hn['n%d' % i]
                    if t[0] != case['kind'][i - 1] or t[1] != nodes[i].id or t[2] != case['V'][i - 1] or t[3] != case['N'][i - 1]:
                        div(tag + '_node', {'node': i, 'got': list(t[:4]), 'want': [case['kind'][i - 1], nodes[i].id, case['V'][i - 1], case['N'][i - 1]]})
                        return False
                if hc != want_edges or hp != want_edges:
                    div(tag + '_edges', {'children_missing': sorted((want_edges - hc).elements())[:5], 'children_extra': sorted((hc - want_edges).elements())[:5],
                                         'parents_missing': sorted((want_edges - hp).elements())[:5], 'parents_extra': sorted((hp - want_edges).elements())[:5]})
                    return False
                return True
            before = describe(g)
            ser = json.dumps(g._to_dict(), sort_keys=True, default=str)
            if not matches_case(g, 'built'):
                return res          # (the graph as built and analysed already differs: C08 / C09 report that)
            if self.mode == 'file':
                for ext in ('json', 'yml') if n <= 12 else ('json',):
                    path = os.path.join(os.getcwd(), 'agbig-%d.%s' % (os.getpid(), ext))
                    try:
                        g.save_to_file(path)
                        h = AttackGraph.load_from_file(path, model=None)
                    except Exception as e:
                        div('big_%s_raises' % ext, {'error': repr(e)[:300]})
                        return res
                    finally:
                        if os.path.exists(path):
                            os.unlink(path)
                    res['steps'] += 1
                    if not matches_case(h, 'big_loaded_' + ext):
                        return res
                    if describe(h)[0] != before[0]:
                        k = sorted(k for k in before[0] if describe(h)[0].get(k) != before[0][k])[:3]
                        div('big_loaded_%s_attributes' % ext, {'nodes': k, 'got': [describe(h)[0].get(x) for x in k], 'want': [before[0][x] for x in k]})
                        return res
                    if json.dumps(h._to_dict(), sort_keys=True, default=str) != ser:
                        div('big_loaded_%s_serialisation' % ext, {})
                        return res
                    if json.dumps(g._to_dict(), sort_keys=True, default=str) != ser:
                        div('big_save_changed_original', {})
                        return res
            else:
                try:
                    h = copy.deepcopy(g)
                except Exception as e:
                    div('big_copy_raises', {'error': repr(e)[:300]})
                    return res
                res['steps'] += 1
                if not matches_case(h, 'big_copy'):
                    return res
                if describe(h)[0] != before[0] or json.dumps(h._to_dict(), sort_keys=True, default=str) != ser:
                    div('big_copy_attributes', {})
                    return res
                mine = {id(x) for x in g.nodes}
                shared = [x.name for x in h.nodes if id(x) in mine] + \
                         [x.name for x in h.nodes for y in list(x.children) + list(x.parents) if id(y) in mine]
                if shared:
                    div('big_copy_shares_nodes', {'nodes': shared[:6]})
                    return res
                # lookups of the copy answer with the copy's own nodes
                for x in h.nodes[:: max(1, n // 16)]:
                    if h.get_node_by_id(x.id) is not x or h.get_node_by_full_name(x.full_name) is not x:
                        div('big_copy_lookup', {'node': x.name})
                        return res
                # independence, copy -> original: prune the copy and flip the labels of what is left
                prune_unviable_and_unnecessary_nodes(h)
                for x in h.nodes:
                    x.is_viable = not x.is_viable
                    x.is_necessary = not x.is_necessary
                    if isinstance(x.ttc, dict):
                        x.ttc['name'] = 'Changed'
                if json.dumps(g._to_dict(), sort_keys=True, default=str) != ser or describe(g) != before:
                    div('big_copy_not_independent', {'direction': 'copy -> original'})
                    return res
                # original -> copy
                h2 = copy.deepcopy(g)
                prune_unviable_and_unnecessary_nodes(g)
                for x in g.nodes:
                    x.is_viable = not x.is_viable
                if json.dumps(h2._to_dict(), sort_keys=True, default=str) != ser:
                    div('big_copy_not_independent', {'direction': 'original -> copy'})
                    return res
                res['steps'] += 1
        if want_edges:
            res['nontrivial'] = json.dumps(case.get('family'), sort_keys=True)
        res['sample'] = {'family': case.get('family'), 'nodes': n, 'edges': sum(want_edges.values()), 'mode': self.mode}
        return res


def replay_divergence(d):
    r = Adapter(mode=d.get('mode', 'file')).run_case(d['case'])
    return bool(r['div']), {'divergences': [{k: v for k, v in x.items() if k in ('component', 'detail')} for x in r['div']]}
