"""Adapter (C13, larger graphs): the labelled graph families of Gen_AprioriBig -> real AttackGraph (add_node, several
stored orders) -> calculate_viability_and_necessity -> prune_unviable_and_unnecessary_nodes. Expected: exactly the steps
of Gen_AprioriBig!BigPrunable are gone; the survivors keep their relative order, their labels, their ids and their edges
to other survivors (each once); the id / full-name lookups find every survivor and none of the removed steps."""
import collections
import json
import random

from harness.replay_apriori import build


class Adapter:
    case_timeout = 60

    def __init__(self, seed=1, orders=3, **kw):
        self.rng = random.Random(seed)
        self.orders = orders

    def on_timeout(self, case):
        return {'steps': 1, 'div': [{'kind': 'timeout', 'action': 'Prune', 'component': 'timeout', 'features': ['big'],
                                     'case': {'family': case.get('family')}, 'adapter': 'harness.replay_prune_big'}]}

    def run_case(self, case):
        from maltoolbox.attackgraph.analyzers.apriori import (calculate_viability_and_necessity,
                                                              prune_unviable_and_unnecessary_nodes)
        n = case['n']
        ident = list(range(1, n + 1))
        orders = [ident, list(reversed(ident))]
        for _ in range(self.orders - 2):
            sh = ident[:]
            self.rng.shuffle(sh)
            orders.append(sh)
        gone = set(case['prunable'])
        res = {'steps': 0, 'div': [], 'features': sorted(set(case['flags']) | ({'prunes'} if gone else set()))}
        for order in orders:
            g, nodes = build(case, order)

            def div(comp, detail):
                res['div'].append({'kind': 'divergence', 'action': 'Prune', 'component': comp, 'features': ['big'],
                                   'detail': dict(detail, order_head=order[:12], family=case.get('family')),
                                   'case': {k: case[k] for k in ('n', 'kind', 'par', 'st', 'dist', 'V', 'N', 'flags', 'family', 'prunable') if k in case},
                                   'adapter': 'harness.replay_prune_big'})
            calculate_viability_and_necessity(g)
            ids = {i: nodes[i].id for i in ident}
            names = {i: nodes[i].full_name for i in ident}
            try:
                prune_unviable_and_unnecessary_nodes(g)
            except Exception as e:
                div('big_prune_raises', {'error': repr(e)[:300]})
                return res
            res['steps'] += 1
            want = [i for i in order if i not in gone]
            got = [int(x.name[1:]) for x in g.nodes]
            if got != want:
                div('big_node_set', {'kept_but_prunable': sorted(set(got) & gone)[:8], 'removed_but_kept_by_spec': sorted(set(want) - set(got))[:8],
                                     'order_changed': sorted(got) == sorted(want)})
                return res
            for i in want:
                x = nodes[i]
                if bool(x.is_viable) != case['V'][i - 1] or bool(x.is_necessary) != case['N'][i - 1] or x.id != ids[i]:
                    div('big_survivor_changed', {'node': i, 'id': [ids[i], x.id], 'labels': [x.is_viable, x.is_necessary]})
                    return res
                wp = collections.Counter(p for p in case['par'][i - 1] if p not in gone)
                wc = collections.Counter(c for c in ident if i in case['par'][c - 1] and c not in gone)
                gp = collections.Counter(int(p.name[1:]) for p in x.parents)
                gc = collections.Counter(int(c.name[1:]) for c in x.children)
                if gp != wp or gc != wc:
                    div('big_edges', {'node': i, 'parents': [sorted(gp.elements())[:6], sorted(wp.elements())[:6]],
                                      'children': [sorted(gc.elements())[:6], sorted(wc.elements())[:6]]})
                    return res
                if g.get_node_by_id(ids[i]) is not x or g.get_node_by_full_name(names[i]) is not x:
                    div('big_lookup_survivor', {'node': i})
                    return res
            for i in sorted(gone):
                if g.get_node_by_id(ids[i]) is not None or g.get_node_by_full_name(names[i]) is not None:
                    div('big_lookup_removed', {'node': i, 'id': ids[i]})
                    return res
        if gone:
            res['nontrivial'] = json.dumps(case.get('family'), sort_keys=True)
        res['sample'] = {'family': case.get('family'), 'nodes': n, 'pruned': len(gone)}
        return res


def replay_divergence(d):
    r = Adapter().run_case(d['case'])
    return bool(r['div']), {'divergences': [{k: v for k, v in x.items() if k in ('component', 'detail')} for x in r['div']]}
