"""Adapter (C12): labelled graphs + reached sets -> real AttackGraph / Attacker; query results compared as sets,
no duplicates, incremental update = recomputation, queries do not change the graph."""
import json


def build(case):
    from maltoolbox.attackgraph import AttackGraph, AttackGraphNode, Attacker
    g = AttackGraph()
    nodes = {}
    n = case['n']
    for i in range(1, n + 1):
        kind = case['kind'][i - 1]
        x = AttackGraphNode(type=kind, name='n%d' % i)
        if kind == 'defense':
            x.defense_status = case['st'][i - 1] / 10
            if case['supp'][i - 1]:
                x.tags = ['suppress']
        x.is_viable = case['V'][i - 1]
        x.is_necessary = case['N'][i - 1]
        nodes[i] = x
        g.add_node(x)
    for c in range(1, n + 1):
        for p in case['par'][c - 1]:
            for _ in range(2 if case.get('dup') else 1):      # the same edge listed twice (two expressions, one target)
                nodes[p].children.append(nodes[c])
                nodes[c].parents.append(nodes[p])
    a = Attacker(name='a')
    # every node is one of a's entry points (entry points say where an attacker may start, not what it has reached:
    # they must not influence traversability or either way of computing the surface)
    g.add_attacker(a, entry_points=[nodes[i].id for i in range(1, n + 1)])
    b = Attacker(name='b')          # a second attacker that has compromised everything must not matter
    g.add_attacker(b)
    for i in range(1, n + 1):
        b.compromise(nodes[i])
    for i in case['R']:
        a.compromise(nodes[i])
    return g, nodes, a


class Adapter:
    case_timeout = 20

    def __init__(self, **kw):
        pass

    def on_timeout(self, case):
        return {'steps': 1, 'div': [{'kind': 'timeout', 'action': 'Query', 'component': 'timeout', 'features': [],
                                     'case': case, 'adapter': 'harness.replay_query'}]}

    def run_case(self, case):
        from maltoolbox.attackgraph import query
        g, nodes, a = build(case)
        n = case['n']
        res = {'steps': 1, 'div': [], 'features': []}
        ids = {id(v): k for k, v in nodes.items()}

        def div(comp, detail):
            res['div'].append({'kind': 'divergence', 'action': 'Query', 'component': comp, 'features': [],
                               'detail': detail, 'case': case, 'adapter': 'harness.replay_query'})
        before = json.dumps(g._to_dict(), sort_keys=True, default=str)
        trav = [bool(query.is_node_traversable_by_attacker(nodes[i], a)) for i in range(1, n + 1)]
        if trav != case['trav']:
            div('traversable', {'want': case['trav'], 'got': trav})
        s1 = query.get_attack_surface(a)
        k1 = [ids.get(id(x), -1) for x in s1]
        if len(set(k1)) != len(k1):
            div('surface_duplicates', {'got': k1})
        if sorted(set(k1)) != sorted(case['surf']):
            div('surface', {'want': sorted(case['surf']), 'got': sorted(k1)})
        ds = sorted(ids.get(id(x), -1) for x in query.get_defense_surface(g))
        if ds != sorted(case['dsurf']):
            div('defense_surface', {'want': sorted(case['dsurf']), 'got': ds})
        de = sorted(ids.get(id(x), -1) for x in query.get_enabled_defenses(g))
        if de != sorted(case['denab']):
            div('enabled_defenses', {'want': sorted(case['denab']), 'got': de})
        if json.dumps(g._to_dict(), sort_keys=True, default=str) != before:
            div('query_mutated_graph', {})
        # incremental update after compromising R2 \ R
        new = [nodes[i] for i in sorted(set(case['R2']) - set(case['R']))]
        for x in new:
            a.compromise(x)
        mid = json.dumps(g._to_dict(), sort_keys=True, default=str)
        s2 = query.update_attack_surface_add_nodes(a, list(s1), new)
        k2 = [ids.get(id(x), -1) for x in s2]
        if len(set(k2)) != len(k2):
            div('incremental_duplicates', {'got': k2})
        if sorted(set(k2)) != sorted(case['surf2']):
            div('incremental_surface', {'want': sorted(case['surf2']), 'got': sorted(k2), 'previous': sorted(k1)})
        s3 = sorted(ids.get(id(x), -1) for x in query.get_attack_surface(a))
        if s3 != sorted(case['surf2']):
            div('surface_after', {'want': sorted(case['surf2']), 'got': s3})
        if json.dumps(g._to_dict(), sort_keys=True, default=str) != mid:
            div('query_mutated_graph', {'after': 'incremental update'})
        if case['surf2']:
            res['nontrivial'] = json.dumps([case[k] for k in ('kind', 'par', 'V', 'N', 'R', 'R2', 'st', 'supp', 'dup')])
        res['sample'] = {k: case[k] for k in ('kind', 'par', 'V', 'N', 'R', 'R2', 'surf', 'surf2')}
        res['div'] = res['div'][:3]
        return res


def replay_divergence(d):
    r = Adapter().run_case(d['case'])
    return bool(r['div']), {'divergences': [{k: v for k, v in x.items() if k in ('component', 'detail')} for x in r['div']]}
