"""Adapter (C07): ModelSM behaviours -> real Model; at the end of each behaviour the model is written to .json / .yml /
.yaml and loaded back with the same language; the loaded model must have the same abstract content (AbsNative) as the
specification's state; saving again reproduces the file; permuted / shorthand hand-written files load to the same model."""
import copy
import json
import os

from harness import materialise
from harness.replay_model import ModelDriver, norm_expected, diff_obs, canon, sort_set

NAMEMAPS = {
    'plain': None,
    'colon': 'with:colon',
    'yamlbool': 'yes',
    'yamlfloat': '1.0',
    'yamlflow': 'a: [b',
    'unicode': 'ünï✓',
    'null': 'null',
    'tilde': '~',
    'blank': ' lead',
    'newline': 'new\nline',
    'quote': 'q"uo\'te',
    'int': '123',
    'idlike': '1',          # a name that is the decimal text of (another) asset's id
    'idlike0': '0',
    'nel': 'a\x85b\u2028c',   # NEL and LINE SEPARATOR: line breaks for YAML, ordinary characters for a name
}


class MappedDriver(ModelDriver):
    def __init__(self, ctx, concrete):
        super().__init__(ctx)
        self.concrete = concrete

    def to_c(self, n):
        if self.concrete is None or n == 'NONE':
            return n
        for a in ('n1', 'n2'):
            if n.startswith(a):
                return self.concrete + ('' if a == 'n1' else '#2') + n[2:]
        return n

    def to_a(self, s):
        if self.concrete is None:
            return s
        if s.startswith(self.concrete + '#2'):
            return 'n2' + s[len(self.concrete) + 2:]
        if s.startswith(self.concrete):
            return 'n1' + s[len(self.concrete):]
        return s

    def apply(self, act):
        if act['op'] == 'AddAsset' and act['reqName'] != 'NONE':
            act = dict(act, reqName=self.to_c(act['reqName']))
        return super().apply(act)

    def project(self):
        o = super().project()
        for a in o['assets']:
            a['name'] = self.to_a(a['name'])
        return o


def abs_of_model(m, handle_of_id, handle_of_assoc, drv):
    """AbsNative of a (loaded) model in terms of the original handles (assets are matched by id)."""
    assets = []
    for a in m.assets:
        defs = m.get_asset_defenses(a, include_defaults=True)
        ex = a.extras.as_dict() if hasattr(a.extras, 'as_dict') else dict(a.extras or {})
        assets.append({'h': handle_of_id.get(int(a.id), -1), 'id': int(a.id), 'name': drv.to_a(str(a.name)), 'type': str(a.type),
                       'def': {k: int(round(float(v) * 10)) for k, v in defs.items()},
                       'extras': int(ex.get('k', 0)) if ex else 0})
    assocs = []
    for x in m.associations:
        lf, rf = [str(k) for k in x._properties.keys()]
        ex = x.extras
        ex = ex.as_dict() if hasattr(ex, 'as_dict') else (dict(ex) if ex else {})
        l = sorted(handle_of_id.get(int(y.id), -1) for y in getattr(x, lf))
        r = sorted(handle_of_id.get(int(y.id), -1) for y in getattr(x, rf))
        cls = drv.cls_index.get(type(x).__name__, -1)
        assocs.append({'cls': cls, 'l': l, 'r': r, 'extras': int(ex.get('k', 0)) if ex else 0})
    atk = []
    for t in m.attackers:
        atk.append({'id': t.id, 'name': t.name,
                    'ep': sort_set([{'a': handle_of_id.get(int(e[0].id), -1), 'steps': sorted(e[1])} for e in t.entry_points])})
    return {'assets': sort_set(assets), 'assocs': sort_set(assocs), 'atk': sort_set(atk)}


def abs_of_expected(exp):
    return {'assets': exp['assets'],
            'assocs': sort_set([{'cls': a['cls'], 'l': a['l'], 'r': a['r'], 'extras': a['extras']} for a in exp['assocs']]),
            'atk': sort_set([{'id': t['id'], 'name': t['name'], 'ep': t['ep']} for t in exp['atk']])}


class Adapter:
    case_timeout = 40

    def __init__(self, langs=None, namemaps=('plain',), **kw):
        self.langs = langs or {}
        self.namemaps = namemaps
        self.seen = set()
        self.primed = set()

    def prime(self, lang):
        """Configuration axis 'several languages in one process': before the first model of a language is handled, a
        model of a DECOY language is built and serialised in the same process - same asset type names, but one more
        defense on every type (even worker pids) or no defenses at all (odd pids). Nothing the library remembers from
        one language may leak into another."""
        if lang in self.primed:
            return
        self.primed.add(lang)
        import copy
        L = copy.deepcopy(self.langs[lang])
        L['id'] = L['id'] + '.decoy'
        more = os.getpid() % 2 == 0
        for a in L['assets']:
            if more:
                a['steps'] = a['steps'] + [{'name': 'zzdecoy', 'kind': 'defense', 'tags': [], 'risk': {'present': False, 'c': False, 'i': False, 'a': False},
                                            'ttc': {'type': 'function', 'name': 'Enabled', 'arguments': []}, 'meta': [],
                                            'requires': {'present': False, 'exprs': []},
                                            'reaches': {'present': False, 'overrides': False, 'exprs': []}}]
            else:
                a['steps'] = [dict(s, kind='or', ttc={'type': 'none'}) if s['kind'] == 'defense' else s for s in a['steps']]
        try:
            dctx = materialise.LangCtx(L)
            m = dctx.new_model('decoy')
            for a in L['assets']:
                m.add_asset(getattr(dctx.ns, a['name'])(name='d_' + a['name']))
            m._to_dict()
        except Exception:
            pass        # the decoy only primes whatever state the library keeps; its own fate is not judged

    def on_timeout(self, case):
        return {'steps': 1, 'div': [{'kind': 'timeout', 'action': 'RoundTrip', 'component': 'timeout', 'features': [],
                                     'case': {'lang': case['lang']}, 'adapter': 'harness.replay_roundtrip'}]}

    @staticmethod
    def _write(content, path):
        with open(path, 'w', encoding='utf-8') as f:
            f.write(content)
        return path

    def run_case(self, case):
        from maltoolbox.model import Model
        lang = case['lang']
        self.prime(lang)
        ctx = materialise.lang_ctx(self.langs[lang], key=lang)
        res = {'steps': 0, 'div': [], 'features': []}
        hist = case['hist']
        if not hist:
            return res
        exp = norm_expected(hist[-1]['obs'])
        if hist[-1]['act']['res'] == 'collide':
            return res
        # many histories end in the same state: each distinct final state is round-tripped once per worker
        key = lang + canon(exp)
        if key in self.seen:
            return res
        self.seen.add(key)
        feats = set()
        if any(a['id'] == 0 for a in exp['assets']):
            feats.add('id_zero')
        if any(a['id'] < 0 for a in exp['assets']):
            feats.add('id_negative')
        if any(a['extras'] for a in exp['assets']):
            feats.add('asset_extras')
        if any(a['extras'] for a in exp['assocs']):
            feats.add('assoc_extras')
        if exp['atk']:
            feats.add('attackers')
        if any(t['ep'] for t in exp['atk']):
            feats.add('entry_points')
        ids = sorted(a['id'] for a in exp['assets'])
        if ids and ids != list(range(ids[0], ids[0] + len(ids))):
            feats.add('id_gaps')
        res['features'] = sorted(feats)
        for nm in self.namemaps:
            drv = MappedDriver(ctx, NAMEMAPS[nm])
            ok = True
            for k, s in enumerate(hist):
                if drv.apply(s['act']) != s['act']['res']:
                    ok = False
                    break
                if nm == self.namemaps[0] and k < len(hist) - 1:
                    # saving is an observation: a save at an earlier point (here: after every step) leaves nothing behind
                    # that a later save could pick up
                    try:
                        early = os.path.join(os.getcwd(), 'early-%d.%s' % (os.getpid(), ('json', 'yml')[k % 2]))
                        drv.model.save_to_file(early)
                        os.unlink(early)
                    except Exception:
                        pass
            m = drv.model
            if not ok:
                res['inconclusive'] = True        # a call had another outcome than specified: C05's business
                return res
            if diff_obs(exp, drv.project()):
                # The model itself differs from the specification state (C05's business) - but a round trip is a stutter
                # on WHATEVER the model is: it is still judged, against the model's own content (counts and ids of what
                # was saved and what came back)
                res['inconclusive'] = True
                try:
                    path = os.path.join(os.getcwd(), 'm-%d.json' % os.getpid())
                    m.save_to_file(path)
                    mb = Model.load_from_file(path, ctx.factory)
                    os.unlink(path)
                    before = (sorted(int(a.id) for a in m.assets), len(m.associations), len(m.attackers))
                    after = (sorted(int(a.id) for a in mb.assets), len(mb.associations), len(mb.attackers))
                    if before != after:
                        res['div'].append({'kind': 'divergence', 'action': 'RoundTrip', 'component': 'content_lost_after_model_divergence',
                                           'features': ['after_model_divergence', 'json', 'names_' + nm],
                                           'detail': {'assets_assocs_attackers_before': before, 'after': after},
                                           'case': {'lang': lang, 'acts': [s['act'] for s in hist], 'namemap': nm},
                                           'full_case': case, 'adapter': 'harness.replay_roundtrip'})
                except Exception as e:
                    res['div'].append({'kind': 'divergence', 'action': 'RoundTrip', 'component': 'roundtrip_raises_after_model_divergence',
                                       'features': ['after_model_divergence', 'json', 'names_' + nm], 'detail': {'error': repr(e)[:300]},
                                       'case': {'lang': lang, 'acts': [s['act'] for s in hist], 'namemap': nm},
                                       'full_case': case, 'adapter': 'harness.replay_roundtrip'})
                return res
            want = abs_of_expected(exp)
            hid = {a['id']: a['h'] for a in exp['assets']}
            for fmt in ('json', 'yml', 'yaml'):
                res['steps'] += 1
                path = os.path.join(os.getcwd(), 'm-%d.%s' % (os.getpid(), fmt))
                f2 = sorted((feats & {'assoc_extras', 'asset_extras'}) | {fmt, 'names_' + nm})

                def div(comp, detail):
                    res['div'].append({'kind': 'divergence', 'action': 'RoundTrip', 'component': comp, 'features': f2,
                                       'detail': detail, 'case': {'lang': lang, 'acts': [s['act'] for s in hist], 'namemap': nm},
                                       'full_case': case, 'adapter': 'harness.replay_roundtrip'})
                try:
                    m.save_to_file(path)
                except Exception as e:
                    div('save_raises', {'error': repr(e)[:300]})
                    break
                try:
                    content = open(path, encoding='utf-8').read()
                    m2 = Model.load_from_file(path, ctx.factory)
                except Exception as e:
                    div('load_raises', {'error': repr(e)[:300]})
                    break
                finally:
                    if os.path.exists(path):
                        os.unlink(path)
                got = abs_of_model(m2, hid, None, drv)
                bad = [k for k in want if canon(want[k]) != canon(got[k])]
                if bad or m2.name != m.name:
                    k = bad[0] if bad else 'name'
                    e = {canon(x) for x in want.get(k, [])}
                    g = {canon(x) for x in got.get(k, [])}
                    div('loaded_' + k, {'missing': [json.loads(x) for x in sorted(e - g)][:4],
                                        'unexpected': [json.loads(x) for x in sorted(g - e)][:4]})
                    break
                # typed attributes of the loaded assets
                for a in m2.assets:
                    if not isinstance(int(a.id), int) or not isinstance(str(a.name), str):
                        div('loaded_types', {'asset': str(a.name)})
                # saving the loaded model reproduces the content
                m2.save_to_file(path)
                content2 = open(path, encoding='utf-8').read()
                os.unlink(path)
                if content2 != content:
                    div('resave_differs', {'first': content[:300], 'second': content2[:300]})
                    break
                # the loaded model is a model like any other (ModelSM state): one more attacker and one more asset added
                # to it get ids that are not in use, and everything survives the next round trip
                if fmt == 'json':
                    try:
                        from maltoolbox.model import AttackerAttachment
                        m4 = Model.load_from_file(self._write(content, path), ctx.factory)
                        os.unlink(path)
                        t4 = AttackerAttachment()
                        m4.add_attacker(t4)
                        # (a given, unused name: the automatic name '<type>:<id>' may legitimately be taken already)
                        a4 = getattr(ctx.ns, str(m4.assets[0].type))(name='zz added later') if m4.assets else None
                        if a4 is not None:
                            m4.add_asset(a4)
                        n_atk, n_assets = len(m4.attackers), len(m4.assets)
                        if len({t.id for t in m4.attackers}) != n_atk or len({int(a.id) for a in m4.assets}) != n_assets \
                                or len({str(a.name) for a in m4.assets}) != n_assets:
                            div('loaded_then_add_ids_clash', {'attacker_ids': [t.id for t in m4.attackers],
                                                             'asset_ids': [int(a.id) for a in m4.assets]})
                            break
                        m4.save_to_file(path)
                        m5 = Model.load_from_file(path, ctx.factory)
                        os.unlink(path)
                        if len(m5.attackers) != n_atk or len(m5.assets) != n_assets:
                            div('loaded_then_add_lost_on_next_roundtrip', {'attackers': [n_atk, len(m5.attackers)], 'assets': [n_assets, len(m5.assets)]})
                            break
                    except Exception as e:
                        div('loaded_then_add_raises', {'error': repr(e)[:300]})
                        break
                # hand-written variants of the same file: permuted asset order, type-only shorthand
                d = m._to_dict()
                d = json.loads(json.dumps(d, default=lambda o: o.as_dict() if hasattr(o, 'as_dict') else str(o)))
                variants = []
                items = list(d['assets'].items())
                if len(items) >= 2:
                    variants.append(('permuted', dict(d, assets=dict(reversed(items)))))
                    variants.append(('rotated', dict(d, assets=dict(items[1:] + items[:1]))))
                sh = {}
                used = False
                for k, v in items:
                    if set(v) == {'name', 'type'} and v['name'] == '%s:%s' % (v['type'], k):
                        sh[k] = v['type']
                        used = True
                    else:
                        sh[k] = v
                if used:
                    variants.append(('shorthand', dict(d, assets=sh)))
                # an association field with one member may be written as a bare id instead of a list; ids may be strings
                scal = []
                used2 = False
                for entry in d.get('associations', []):
                    e2 = {}
                    for k, v in entry.items():
                        if k == 'extras' or not isinstance(v, dict):
                            e2[k] = v
                            continue
                        e2[k] = {}
                        for f, ids in v.items():
                            if isinstance(ids, list) and len(ids) == 1:
                                e2[k][f] = ids[0]
                                used2 = True
                            elif isinstance(ids, list):
                                e2[k][f] = [str(i) for i in ids]
                                used2 = True
                            else:
                                e2[k][f] = ids
                    scal.append(e2)
                if used2:
                    variants.append(('scalar_or_string_member_ids', dict(d, associations=scal)))
                for vn, dv in variants:
                    try:
                        m3 = Model._from_dict(copy.deepcopy(dv), ctx.factory)
                        got3 = abs_of_model(m3, hid, None, drv)
                    except Exception as e:
                        res['div'].append({'kind': 'divergence', 'action': 'RoundTrip', 'component': 'handwritten_' + vn + '_raises',
                                           'features': f2, 'detail': {'error': repr(e)[:300]},
                                           'case': {'lang': lang, 'acts': [s['act'] for s in hist], 'namemap': nm},
                                           'full_case': case, 'adapter': 'harness.replay_roundtrip'})
                        break
                    bad = [k for k in want if canon(want[k]) != canon(got3[k])]
                    if bad:
                        div('handwritten_' + vn + '_' + bad[0], {'want': want[bad[0]][:4], 'got': got3[bad[0]][:4]})
                        break
                if res['div']:
                    break
            if res['div']:
                break
        if len(exp['assets']) >= 2 or exp['assocs'] or exp['atk']:
            res['nontrivial'] = canon(abs_of_expected(exp))
        res['sample'] = {'lang': lang, 'assets': [[a['id'], a['name'], a['type']] for a in exp['assets']],
                         'associations': len(exp['assocs']), 'attackers': len(exp['atk']), 'namemaps': list(self.namemaps)}
        res['div'] = res['div'][:2]
        return res


def replay_divergence(d):
    from harness import common
    langs = common.dump_langs()
    ad = Adapter(langs=langs, namemaps=(d['case'].get('namemap', 'plain'),))
    r = ad.run_case(d['full_case'])
    return bool(r['div']), {'divergences': [{k: v for k, v in x.items() if k in ('component', 'detail', 'features')} for x in r['div']]}
