"""Adapter (C04): token sequences printed by the specification (Tok) -> MAL text files -> MalCompiler().compile ->
compared with the language record the tokens were printed from (and with LanguageGraph.from_mal_spec)."""
import json
import os
import shutil

from harness import materialise

TXT = {'LPAREN': '(', 'RPAREN': ')', 'LCURLY': '{', 'RCURLY': '}', 'HASH': '#', 'COLON': ':', 'LARROW': '<--',
       'RARROW': '-->', 'LSQUARE': '[', 'RSQUARE': ']', 'STAR': '*', 'ASSIGN': '=', 'MINUS': '-', 'INTERSECT': '/\\',
       'UNION': '\\/', 'RANGE': '..', 'DOT': '.', 'AND': '&', 'OR': '|', 'NOTEXISTS': '!E', 'EXISTS': 'E', 'AT': '@',
       'REQUIRES': '<-', 'INHERITS': '+>', 'LEADSTO': '->', 'COMMA': ',', 'PLUS': '+', 'DIVIDE': '/', 'POWER': '^',
       'C': 'C', 'I': 'I', 'A': 'A', 'ABSTRACT': 'abstract', 'ASSET': 'asset', 'ASSOCIATIONS': 'associations',
       'JUNK': ';', 'JUNK2': '$', 'EXTENDS': 'extends', 'INCLUDE': 'include', 'CATEGORY': 'category', 'INFO': 'info', 'LET': 'let'}


def render(toks):
    out = []
    for t in toks:
        k, v = t['k'], t['v']
        if k in ('ID', 'INT', 'FLOAT'):
            out.append(v)
        elif k == 'STRING':
            out.append('"%s"' % v)
        elif k == 'NUM10':
            out.append('%d.%d' % (int(v) // 10, int(v) % 10))
        else:
            out.append(TXT[k])
    # a line break after closing braces keeps the files readable; whitespace is not significant
    return ' '.join(out).replace(' } ', ' }\n').replace(' { ', ' {\n  ')


def write_files(files, root):
    for f in files:
        p = os.path.join(root, f['name'])
        os.makedirs(os.path.dirname(p), exist_ok=True)
        with open(p, 'w', encoding='utf-8') as fh:
            fh.write(render(f['toks']) + '\n')
    return os.path.join(root, files[0]['name'])


def canon_spec(spec):
    """top-level declaration order is compared as sets (layouts legitimately permute it); inside an asset in order"""
    def key(x):
        return json.dumps(x, sort_keys=True)
    return {'defines': spec.get('defines'), 'formatVersion': spec.get('formatVersion'),
            'categories': sorted(spec.get('categories', []), key=key),
            'assets': sorted(spec.get('assets', []), key=key),
            'associations': sorted(spec.get('associations', []), key=key)}


def first_diff(a, b, path=''):
    if type(a) != type(b):
        return path, a, b
    if isinstance(a, dict):
        for k in sorted(set(a) | set(b)):
            if k not in a or k not in b:
                return path + '/' + str(k), a.get(k, '<absent>'), b.get(k, '<absent>')
            d = first_diff(a[k], b[k], path + '/' + str(k))
            if d:
                return d
        return None
    if isinstance(a, list):
        if len(a) != len(b):
            return path + '/len', len(a), len(b)
        for i, (x, y) in enumerate(zip(a, b)):
            d = first_diff(x, y, '%s[%d]' % (path, i))
            if d:
                return d
        return None
    return None if a == b else (path, a, b)


class Adapter:
    case_timeout = 120

    def __init__(self, **kw):
        pass

    def on_timeout(self, case):
        return {'steps': 1, 'div': [{'kind': 'timeout', 'action': 'Compile', 'component': 'timeout', 'features': [case['kind'], case['layout']],
                                     'case': {'kind': case['kind'], 'lang': case['lang']['id'], 'layout': case['layout']},
                                     'adapter': 'harness.replay_syntax'}]}

    def run_case(self, case):
        from maltoolbox.language.compiler import MalCompiler
        from maltoolbox.language import LanguageGraph
        L = case['lang']
        res = {'steps': 1, 'div': [], 'features': ['kind_' + case['kind'], 'layout_' + case['layout']]}
        root = os.path.join(os.getcwd(), 'syn-%d' % os.getpid())
        shutil.rmtree(root, ignore_errors=True)
        os.makedirs(root)

        def div(comp, detail):
            res['div'].append({'kind': 'divergence', 'action': 'Compile', 'component': comp,
                               'features': [case['kind'], case['layout']] + detail.pop('feats', []), 'detail': detail,
                               'case': {'kind': case['kind'], 'lang': L['id'], 'layout': case['layout']},
                               'full_case': case, 'adapter': 'harness.replay_syntax'})
        try:
            main = write_files(case['files'], root)
            want = canon_spec(materialise.spec_of(L))
            compiler = MalCompiler()
            try:
                got = compiler.compile(main)
            except Exception as e:
                div('compile_raises', {'error': repr(e)[:300]})
                return res
            # a compiler object may be used again: the same source compiled a second time by the same object
            try:
                again = compiler.compile(main)
                if first_diff(canon_spec(got), canon_spec(again)):
                    div('second_compile_by_same_object_differs', {'at': first_diff(canon_spec(got), canon_spec(again))[0]})
                    return res
            except Exception as e:
                div('second_compile_by_same_object_raises', {'error': repr(e)[:300]})
                return res
            d = first_diff(want, canon_spec(got))
            if d:
                path, w, g = d
                feats = []
                if '/ttc' in path:
                    feats.append('ttc')
                if 'stepExpression' in path:
                    feats.append('expression')
                if 'Multiplicity' in path:
                    feats.append('multiplicity')
                div('specification_differs', {'at': path, 'want': json.dumps(w)[:300], 'got': json.dumps(g, default=str)[:300],
                                              'feats': feats})
                return res
            try:
                lg = LanguageGraph.from_mal_spec(main)
                if first_diff(want, canon_spec(lg._lang_spec)):
                    div('from_mal_spec_differs', {})
            except Exception as e:
                if case['kind'] in ('lib', 'sink'):
                    div('from_mal_spec_raises', {'error': repr(e)[:300]})
            # the command-line entry point is one more way in: `python -m maltoolbox compile <file> <out>` writes the same
            # specification (a fresh process per case: only for the library / kitchen-sink languages, two layouts)
            if case['kind'] in ('lib', 'sink') and case['layout'] in ('single', 'subdir'):
                import subprocess
                import sys
                outp = os.path.join(root, 'cli-out.json')
                env = dict(os.environ, PYTHONPATH=os.environ.get('VERIF_REPO', '/repo') + os.pathsep + os.environ.get('PYTHONPATH', ''))
                p = subprocess.run([sys.executable, '-m', 'maltoolbox', 'compile', main, outp], cwd=root, env=env,
                                   stdout=subprocess.PIPE, stderr=subprocess.STDOUT, text=True, timeout=100)
                res['steps'] += 1
                if p.returncode != 0 or not os.path.exists(outp):
                    div('cli_compile_fails', {'rc': p.returncode, 'output': p.stdout[-300:]})
                else:
                    d2 = first_diff(want, canon_spec(json.load(open(outp, encoding='utf-8'))))
                    if d2:
                        div('cli_compile_differs', {'at': d2[0], 'want': json.dumps(d2[1])[:200], 'got': json.dumps(d2[2], default=str)[:200]})
        finally:
            shutil.rmtree(root, ignore_errors=True)
        res['nontrivial'] = '%s/%s/%s' % (case['kind'], L['id'], case['layout'])
        res['sample'] = {'kind': case['kind'], 'lang': L['id'], 'layout': case['layout'],
                         'text_head': render(case['files'][0]['toks'])[:300]}
        return res


def replay_divergence(d):
    r = Adapter().run_case(d['full_case'])
    return bool(r['div']), {'divergences': [{k: v for k, v in x.items() if k in ('component', 'detail')} for x in r['div']]}
