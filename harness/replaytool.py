"""run.py replay <path>: re-execute a stored divergence against the current tree and report whether it still
diverges from the observation the specification expected (stored in the file when it was found)."""
import importlib
import json
import os
import sys


def replay(path):
    with open(path) as f:
        rec = json.load(f)
    d = rec['divergence']
    adapter_mod = d.get('adapter', 'harness.replay_model')
    mod = importlib.import_module(adapter_mod)
    if not hasattr(mod, 'replay_divergence'):
        print('adapter %s cannot replay single divergences' % adapter_mod)
        return 2
    still, report = mod.replay_divergence(d)
    print(json.dumps(report, indent=1, default=str)[:6000])
    if still:
        print('VIOLATION property=%s replay=%s' % (rec['property'], path))
        return 1
    print('no divergence on the current tree')
    return 0
