"""TLC driver: builds the java command, private metadir, timeout, streams stdout,
parses JSON lines / statistics / coverage, maps TLC failures to MachineryError (exit 2)."""
import json
import os
import re
import shutil
import subprocess
import sys
import time
import uuid

VERIF = os.path.dirname(os.path.dirname(os.path.abspath(__file__)))
SPEC = os.path.join(VERIF, 'spec')
WORK = os.path.join(VERIF, '.work')
CP = '/opt/veriftools/tla/tla2tools.jar:/opt/veriftools/tla/CommunityModules-deps.jar'


class MachineryError(Exception):
    """The verification machinery itself failed (never a verdict about the code)."""


class TlcResult:
    def __init__(self):
        self.generated = 0
        self.distinct = 0
        self.depth = 0
        self.violation = None      # text of an invariant/property violation reported by TLC
        self.error = None          # any other TLC error
        self.coverage = {}         # action name -> (distinct, total)
        self.wall = 0.0
        self.json_lines = 0
        self.tail = []
        self.cmd = ''

    def as_dict(self):
        return {'generated': self.generated, 'distinct': self.distinct, 'depth': self.depth,
                'violation': self.violation, 'wall_s': round(self.wall, 2), 'json_lines': self.json_lines}


_STATS = re.compile(r'^(\d[\d,]*) states generated, (\d[\d,]*) distinct states found')
_DEPTH = re.compile(r'^The depth of the complete state graph search is (\d+)')
_COV = re.compile(r'^<(\w+) line \d+, col \d+ to line \d+, col \d+ of module (\w+)(?: \((\d+) (\d+) (\d+) (\d+)\))?>: (\d+):(\d+)')
_WRAPPERS = {'Next', 'NextP', 'GenNext', 'TraceNext', 'Step', 'GraphNext', 'GNext', 'GenGNext'}
_CALL = re.compile(r'\b([A-Z][A-Za-z0-9]*)\(')
_NOT_ACTIONS = {'Defenses', 'TypeOfH', 'PolicyName', 'NeedsAutoName', 'ToString', 'DOMAIN', 'Range', 'SeqsFrom1', 'Len', 'Present', 'Cardinality', 'On', 'NodeHs', 'AtkHs', 'ModelStep'}
_SRC = {}


def _action_name(name, module, pos):
    """Coverage entries of a wrapper (Next) carry the source range of the disjunct: name it after the action called there."""
    if name not in _WRAPPERS or pos[0] is None:
        return name
    if module not in _SRC:
        try:
            _SRC[module] = open(os.path.join(SPEC, module + '.tla')).read().split('\n')
        except OSError:
            _SRC[module] = []
    l1, c1, l2, c2 = [int(x) for x in pos]
    lines = _SRC[module][l1 - 1:l2]
    if not lines:
        return name
    lines = list(lines)
    lines[-1] = lines[-1][:c2]
    lines[0] = lines[0][c1 - 1:] if len(lines) > 1 else lines[0][c1 - 1:]
    text = re.sub(r'"[^"]*"', '', ' '.join(lines))
    calls = [c for c in _CALL.findall(text) if c not in _NOT_ACTIONS]
    if not calls:
        calls = [c for c in re.findall(r'\b([A-Z][A-Za-z0-9]*)\b', text) if c not in _NOT_ACTIONS]
    return calls[-1] if calls else name
_SIMSTAT = re.compile(r'(\d[\d,]*) states checked')
_PROGRESS = re.compile(r'^Progress\(\d+\).*?: ([\d,]+) states generated.*?([\d,]+) distinct states found')


def _int(s):
    return int(s.replace(',', ''))


def rundir():
    """Per-run scratch root (so that concurrent runs never clean up each other's files)."""
    d = os.environ.get('VERIF_RUNDIR') or os.path.join(WORK, 'adhoc-%d' % os.getpid())
    os.makedirs(d, exist_ok=True)
    return d


def scratch(prefix='run'):
    d = os.path.join(rundir(), '%s-%s' % (prefix, uuid.uuid4().hex[:10]))
    os.makedirs(d, exist_ok=True)
    return d


def decode_json_line(line):
    """PrintT(ToJson(v)) prints a TLA+ string literal; decode it to the value."""
    s = json.loads(line)
    return json.loads(s)


def run_tlc(module, cfg, *, workers=None, simulate=None, depth=None, seed=None, env=None,
            timeout=600, on_json=None, on_raw=None, coverage=False, extra=None, deadlock=False, allow_timeout=False,
            dfid=None, keep_tail=60, stop_after=None):
    """Run TLC on spec/<module>.tla with spec/<cfg>. on_json(value) is called for every JSON line printed by
    PrintT(ToJson(..)). Returns TlcResult. Raises MachineryError for anything that is not a clean run or a
    property violation."""
    meta = scratch('tlc')
    # (java.io.tmpdir: TLC leaves an empty tlc-* directory per run in the temp dir - keep it inside the scratch that is removed)
    cmd = ['java', '-Djava.io.tmpdir=' + meta, '-Xss512m', '-XX:+UseParallelGC', '-Xmx24g', '-cp', CP, 'tlc2.TLC',
           '-metadir', meta, '-noGenerateSpecTE', '-config', cfg]
    if workers is None:
        workers = min(16, os.cpu_count() or 4)
    cmd += ['-workers', str(workers)]
    if not deadlock:
        cmd += ['-deadlock']
    if simulate is not None:
        cmd += ['-simulate', 'num=%d' % simulate]
        if depth is not None:
            cmd += ['-depth', str(depth)]
    if dfid is not None:
        cmd += ['-dfid', str(dfid)]
    if seed is not None:
        cmd += ['-seed', str(seed)]
    if coverage:
        cmd += ['-coverage', '1']
    if extra:
        cmd += list(extra)
    cmd.append(module + '.tla')
    e = dict(os.environ)
    e.pop('JAVA_TOOL_OPTIONS', None)
    if env:
        e.update({k: str(v) for k, v in env.items()})
    res = TlcResult()
    res.cmd = ' '.join(cmd)
    t0 = time.time()
    proc = subprocess.Popen(cmd, cwd=SPEC, env=e, stdout=subprocess.PIPE, stderr=subprocess.STDOUT,
                            text=True, bufsize=1 << 20)
    timed_out = False
    stopped = False
    in_violation = False
    vio_lines = []
    try:
        for line in proc.stdout:
            if time.time() - t0 > timeout:
                timed_out = True
                proc.kill()
                break
            if line.startswith('"{') or line.startswith('"['):
                if stop_after is not None and res.json_lines >= stop_after:
                    stopped = True
                    proc.kill()
                    break
                if on_raw is not None:
                    res.json_lines += 1
                    on_raw(line)
                    continue
                try:
                    v = decode_json_line(line)
                except Exception:
                    res.tail.append('UNPARSED ' + line[:200])
                    continue
                res.json_lines += 1
                if on_json:
                    on_json(v)
                continue
            line = line.rstrip('\n')
            if len(res.tail) >= keep_tail:
                res.tail.pop(0)
            res.tail.append(line[:400])
            m = _STATS.match(line)
            if m:
                res.generated, res.distinct = _int(m.group(1)), _int(m.group(2))
                continue
            m = _PROGRESS.match(line)
            if m:
                res.generated, res.distinct = _int(m.group(1)), _int(m.group(2))
                continue
            m = _DEPTH.match(line)
            if m:
                res.depth = int(m.group(1))
                continue
            m = _COV.match(line)
            if m:
                an = _action_name(m.group(1), m.group(2), m.groups()[2:6])
                old = res.coverage.get(an, (0, 0))
                res.coverage[an] = (old[0] + int(m.group(7)), old[1] + int(m.group(8)))
                continue
            if simulate is not None:
                m = _SIMSTAT.search(line)
                if m:
                    res.generated = max(res.generated, _int(m.group(1)))
            if line.startswith('Error: Invariant') or line.startswith('Error: Action property') \
                    or line.startswith('Error: Temporal properties') or 'is violated' in line and line.startswith('Error:'):
                in_violation = True
                res.violation = line
            elif line.startswith('Error:') and res.violation is None and res.error is None:
                res.error = line
            if in_violation and len(vio_lines) < 400:
                vio_lines.append(line)
    finally:
        try:
            proc.wait(timeout=30)
        except Exception:
            proc.kill()
        shutil.rmtree(meta, ignore_errors=True)
    res.wall = time.time() - t0
    if res.violation:
        res.violation = '\n'.join(vio_lines[:200])
        return res
    if stopped:
        return res
    if timed_out:
        if allow_timeout:
            res.error = 'timeout'
            return res
        raise MachineryError('TLC timed out after %ss: %s' % (timeout, res.cmd))
    if proc.returncode not in (0,) or res.error:
        raise MachineryError('TLC failed (rc=%s): %s\n%s\n%s' % (proc.returncode, res.error, res.cmd,
                                                                 '\n'.join(res.tail[-25:])))
    return res


def sany(module):
    p = subprocess.run(['java', '-cp', CP, 'tla2sany.SANY', module + '.tla'], cwd=SPEC,
                       stdout=subprocess.PIPE, stderr=subprocess.STDOUT, text=True)
    ok = p.returncode == 0 and 'Semantic errors' not in p.stdout and 'Parse Error' not in p.stdout \
        and '*** Errors' not in p.stdout
    return ok, p.stdout


if __name__ == '__main__':
    r = run_tlc(sys.argv[1], sys.argv[2], on_json=lambda v: None)
    print(r.as_dict())
