"""Tracer: wraps the public methods of Model / AttackerAttachment from outside (no source change) and records
one event per top-level call - action name, arguments as handles, outcome, values the code chose (id, name) and
the small projection of the model after the call. Sequential library: the linearisation point is the return."""
import functools
import json
import os
import sys

NOID = 99


class ModelTrace:
    """Trace of one Model instance."""

    def __init__(self, model, label=None):
        self.model = model
        self.label = label
        self.events = []
        self.h = {}
        self.keep = []
        self.next = 1
        self.atk_owner = {}

    def handle(self, obj):
        k = id(obj)
        if k not in self.h:
            self.h[k] = self.next
            self.next += 1
            self.keep.append(obj)   # keep alive so id() is never reused
        return self.h[k]

    def known(self, obj):
        return id(obj) in self.h

    def cls_index(self, assoc):
        f = self.model.lang_classes_factory
        lg = f.lang_graph
        name = type(assoc).__name__
        fields = [str(k) for k in assoc._properties.keys()]
        idx = getattr(self, '_clsidx', None)
        if idx is None:
            idx = {}
            spec = lg._lang_spec['associations']
            for i, a in enumerate(spec):
                shared = sum(1 for b in spec if b['name'] == a['name']) > 1
                cn = '%s_%s_%s' % (a['name'], a['leftAsset'], a['rightAsset']) if shared else a['name']
                idx[cn] = i + 1
            self._clsidx = idx
        return idx.get(name, 0)

    def sync(self):
        """entry_points is a public dataclass field: callers (e.g. the translators) assign or append to it
        directly. Such a change between two API calls is logged as an explicit SetEntryPoints event."""
        last = getattr(self, 'last_atk', None)
        if last is None:
            return
        for t in self.model.attackers:
            h = self.handle(t)
            cur = [{'a': self.handle(e[0]), 'steps': list(e[1])} for e in t.entry_points]
            if h in last and last[h] != cur:
                ev = {'op': 'SetEntryPoints', 'h': h, 'ep': cur, 'res': 'ok'}
                ev['obs'] = self.obs()
                self.events.append(ev)

    def obs(self):
        m = self.model
        assets = [{'h': self.handle(a), 'id': int(a.id), 'name': str(a.name), 'type': str(a.type)} for a in m.assets]
        assocs = []
        for a in m.associations:
            lf, rf = [str(k) for k in a._properties.keys()]
            assocs.append({'h': self.handle(a), 'cls': self.cls_index(a),
                           'l': [self.handle(x) for x in getattr(a, lf)],
                           'r': [self.handle(x) for x in getattr(a, rf)]})
        atk = [{'h': self.handle(t), 'id': t.id if t.id is not None else NOID, 'name': t.name if t.name else 'NONE',
                'ep': [{'a': self.handle(e[0]), 'steps': list(e[1])} for e in t.entry_points]}
               for t in m.attackers]
        self.last_atk = {t['h']: t['ep'] for t in atk}
        return {'assets': assets, 'assocs': assocs, 'atk': atk}


class Tracer:
    def __init__(self):
        self.traces = {}
        self.order = []
        self.depth = 0
        self.installed = False
        self.current_label = None
        self.originals = []

    def trace_of(self, model):
        k = id(model)
        if k not in self.traces:
            self.traces[k] = ModelTrace(model, self.current_label)
            self.order.append(k)
        return self.traces[k]

    # ------------------------------------------------------------------ wrapping
    def install(self):
        if self.installed:
            return
        import maltoolbox.model as mm
        self.installed = True
        T = self

        def wrap(cls, name, pre_fn, post_fn=None):
            orig = getattr(cls, name)
            T.originals.append((cls, name, orig))

            @functools.wraps(orig)
            def w(self, *a, **kw):
                if T.depth > 0:
                    return orig(self, *a, **kw)
                tr, ev = pre_fn(self, a, kw)
                if tr is None:
                    return orig(self, *a, **kw)
                tr.sync()
                T.depth += 1
                res = 'ok'
                try:
                    return orig(self, *a, **kw)
                except Exception:
                    res = 'exc'
                    raise
                finally:
                    T.depth -= 1
                    ev['res'] = res
                    if post_fn:
                        post_fn(tr, ev, self, a, kw)
                    try:
                        ev['obs'] = tr.obs()
                    except Exception as e:   # projection failure: record, validation will flag it
                        ev['obs_error'] = repr(e)
                    tr.events.append(ev)
            setattr(cls, name, w)

        def arg(a, kw, i, name, default=None):
            if name in kw:
                return kw[name]
            return a[i] if len(a) > i else default

        # ---- Model
        def pre_add_asset(m, a, kw):
            tr = T.trace_of(m)
            asset = arg(a, kw, 0, 'asset')
            rid = arg(a, kw, 1, 'asset_id')
            dup = arg(a, kw, 2, 'allow_duplicate_names', True)
            return tr, {'op': 'AddAsset', 'T': str(asset.type),
                        'reqName': str(asset.name) if hasattr(asset, 'name') else 'NONE',
                        'reqId': NOID if rid is None else int(rid), 'allowDup': bool(dup), 'h': tr.handle(asset)}

        def post_add_asset(tr, ev, m, a, kw):
            asset = arg(a, kw, 0, 'asset')
            ok = ev['res'] == 'ok'
            ev['id'] = int(asset.id) if ok and asset.id is not None else NOID
            ev['name'] = str(asset.name) if ok and hasattr(asset, 'name') else 'NONE'

        def pre_h(op, argname='asset'):
            def f(m, a, kw):
                tr = T.trace_of(m)
                return tr, {'op': op, 'h': tr.handle(arg(a, kw, 0, argname))}
            return f

        def pre_add_assoc(m, a, kw):
            tr = T.trace_of(m)
            assoc = arg(a, kw, 0, 'association')
            lf, rf = [str(k) for k in assoc._properties.keys()]
            return tr, {'op': 'AddAssociation', 'cls': tr.cls_index(assoc),
                        'l': [tr.handle(x) for x in getattr(assoc, lf)],
                        'r': [tr.handle(x) for x in getattr(assoc, rf)], 'h': tr.handle(assoc)}

        def pre_rm_from(m, a, kw):
            tr = T.trace_of(m)
            return tr, {'op': 'RemoveFromAssoc', 'h': tr.handle(arg(a, kw, 0, 'asset')),
                        'ah': tr.handle(arg(a, kw, 1, 'association'))}

        def pre_add_attacker(m, a, kw):
            tr = T.trace_of(m)
            t = arg(a, kw, 0, 'attacker')
            rid = arg(a, kw, 1, 'attacker_id')
            T.atk_owner_set(t, tr)
            return tr, {'op': 'AddAttacker', 'reqId': NOID if rid is None else int(rid),
                        'reqName': t.name if getattr(t, 'name', None) else 'NONE', 'h': tr.handle(t),
                        'ep': [{'a': tr.handle(e[0]), 'steps': list(e[1])} for e in t.entry_points]}

        def post_add_attacker(tr, ev, m, a, kw):
            t = arg(a, kw, 0, 'attacker')
            if ev['op'] == 'AddAttacker':
                ev['id'] = t.id if t.id is not None else NOID
                ev['name'] = t.name if t.name else 'NONE'

        wrap(mm.Model, 'add_asset', pre_add_asset, post_add_asset)
        wrap(mm.Model, 'remove_asset', pre_h('RemoveAsset'))
        wrap(mm.Model, 'add_association', pre_add_assoc)
        wrap(mm.Model, 'remove_association', pre_h('RemoveAssociation', 'association'))
        wrap(mm.Model, 'remove_asset_from_association', pre_rm_from)
        wrap(mm.Model, 'add_attacker', pre_add_attacker, post_add_attacker)
        wrap(mm.Model, 'remove_attacker', pre_h('RemoveAttacker', 'attacker'))

        # ---- AttackerAttachment (belongs to the model it was added to)
        def pre_ep(op):
            def f(t, a, kw):
                tr = T.atk_owner.get(id(t))
                if tr is None:
                    return None, None
                return tr, {'op': op, 'h': tr.handle(t), 'a': tr.handle(arg(a, kw, 0, 'asset')),
                            's': arg(a, kw, 1, 'attackstep_name')}
            return f
        wrap(mm.AttackerAttachment, 'add_entry_point', pre_ep('AddEntryPoint'))
        wrap(mm.AttackerAttachment, 'remove_entry_point', pre_ep('RemoveEntryPoint'))

    atk_owner = {}

    def atk_owner_set(self, t, tr):
        self.atk_owner[id(t)] = tr
        tr.keep.append(t)

    def uninstall(self):
        for cls, name, orig in reversed(self.originals):
            setattr(cls, name, orig)
        self.originals = []
        self.installed = False

    def dump(self):
        out = []
        for n, k in enumerate(self.order):
            tr = self.traces[k]
            if tr.events:
                out.append({'id': n + 1, 'label': tr.label, 'events': tr.events})
        return out

    def reset(self):
        self.traces = {}
        self.order = []
        self.atk_owner = {}


TRACER = Tracer()
