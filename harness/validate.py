"""Code -> spec: hand recorded traces to TLC (Trace_Model) in one batch per language and read back, per trace,
the furthest position reached. accepted = consumed to the end; inconclusive = stopped at an out-of-domain event;
rejected = stopped earlier (the event at that position is not a behaviour ModelSM allows)."""
import json
import os
import shutil

from harness import tlc


BIG = 1 << 30


def _small_ids(traces):
    """TLC integers are 32 bit: ids beyond +-2^30 are renamed injectively (per trace) to surrogates; the
    specification only uses ids through equality (and an ordering that is irrelevant in trace mode)."""
    out = []
    for t in traces:
        m = {}

        def f(v):
            if isinstance(v, int) and not isinstance(v, bool) and abs(v) >= BIG:
                if v not in m:
                    m[v] = -BIG + 1 + len(m)
                return m[v]
            return v

        def walk(o):
            if isinstance(o, dict):
                return {k: (f(v) if k in ('id', 'reqId') else walk(v)) for k, v in o.items()}
            if isinstance(o, list):
                return [walk(x) for x in o]
            return o
        out.append({'id': t['id'], 'events': walk(t['events'])})
    return out


def validate_model_traces(lang_record, traces, emit=False, timeout=900, workers=8):
    """traces: list of {'id', 'events'}. Returns dict id -> {'pos', 'len', 'status', 'hist'?}."""
    traces = _small_ids(traces)
    d = tlc.scratch('traces')
    try:
        lf = os.path.join(d, 'lang.json')
        tf = os.path.join(d, 'traces.json')
        with open(lf, 'w') as f:
            json.dump(lang_record, f)
        with open(tf, 'w') as f:
            json.dump([{'id': t['id'], 'events': t['events']} for t in traces], f)
        best = {}

        def on(v):
            if v.get('kind') != 'pos':
                return
            b = best.get(v['tid'])
            if b is None or v['pos'] > b['pos'] or (v['pos'] == b['pos'] and v.get('hist')):
                best[v['tid']] = v
        r = tlc.run_tlc('Trace_Model', 'Trace_Model.cfg', env={'VERIF_LANGFILE': lf, 'VERIF_TRACES': tf,
                                                              'VERIF_EMIT': '1' if emit else '0'},
                        on_json=on, timeout=timeout, workers=workers)
        if r.violation:
            # an invariant of ModelSM broken along a recorded trace: the trace leaves the specified behaviours
            return {'__violation__': r.violation, '__stats__': r.as_dict()}
        out = {'__stats__': r.as_dict()}
        for t in traces:
            b = best.get(t['id'])
            n = len(t['events'])
            if b is None:
                out[t['id']] = {'pos': 0, 'len': n, 'status': 'rejected'}
                continue
            if b['pos'] > n:
                st = 'accepted'
            elif b.get('ood'):
                st = 'inconclusive'
            else:
                st = 'rejected'
            out[t['id']] = {'pos': b['pos'], 'len': n, 'status': st, 'hist': b.get('hist')}
        return out
    finally:
        shutil.rmtree(d, ignore_errors=True)


def validate_graph_traces(traces, timeout=900, workers=8):
    """Batch validation of attack-graph traces against Trace_Graph (GraphSM effect operators)."""
    traces = _small_ids(traces)
    d = tlc.scratch('gtraces')
    try:
        tf = os.path.join(d, 'traces.json')
        with open(tf, 'w') as f:
            json.dump([{'id': t['id'], 'events': t['events']} for t in traces], f)
        best = {}

        def on(v):
            if v.get('kind') != 'pos':
                return
            b = best.get(v['tid'])
            if b is None or v['pos'] > b['pos']:
                best[v['tid']] = v
        r = tlc.run_tlc('Trace_Graph', 'Trace_Graph.cfg', env={'VERIF_TRACES': tf}, on_json=on, timeout=timeout, workers=workers)
        out = {'__stats__': r.as_dict()}
        if r.violation:
            out['__violation__'] = r.violation
            return out
        for t in traces:
            b = best.get(t['id'])
            n = len(t['events'])
            if b is None:
                out[t['id']] = {'pos': 0, 'len': n, 'status': 'rejected'}
            elif b['pos'] > n:
                out[t['id']] = {'pos': b['pos'], 'len': n, 'status': 'accepted'}
            elif b.get('ood'):
                out[t['id']] = {'pos': b['pos'], 'len': n, 'status': 'inconclusive'}
            else:
                out[t['id']] = {'pos': b['pos'], 'len': n, 'status': 'rejected'}
        return out
    finally:
        shutil.rmtree(d, ignore_errors=True)
