#!/venv/bin/python
"""Entry point: run.py setup | check <Cxx> [quick|thorough] | replay <path>
exit 0: property held on everything explored; 1: VIOLATION lines printed; 2: machinery failure."""
import importlib
import json
import os
import shutil
import sys
import time
import traceback

VERIF = os.path.dirname(os.path.abspath(__file__))
sys.path.insert(0, VERIF)
os.environ.setdefault('PYTHONHASHSEED', '0')
os.environ.setdefault('PYTHONDONTWRITEBYTECODE', '1')
REPO = os.environ.get('VERIF_REPO', '/repo')
if REPO not in sys.path:
    sys.path.insert(0, REPO)


def scratch_cwd():
    root = os.path.join(VERIF, '.work', 'run-%d' % os.getpid())
    os.environ['VERIF_RUNDIR'] = root
    d = os.path.join(root, 'cwd-main')
    os.makedirs(d, exist_ok=True)
    os.chdir(d)
    return root


def cmd_setup():
    from harness import tlc
    os.makedirs(os.path.join(VERIF, '.work'), exist_ok=True)
    os.makedirs(os.path.join(VERIF, 'evidence'), exist_ok=True)
    bad = 0
    for f in sorted(os.listdir(os.path.join(VERIF, 'spec'))):
        if f.endswith('.tla'):
            ok, out = tlc.sany(f[:-4])
            if not ok:
                bad += 1
                print('SANY FAILED', f)
                print(out[-2000:])
    d = scratch_cwd()
    import maltoolbox  # noqa: F401  (import check of the tree under test)
    os.chdir(VERIF)
    shutil.rmtree(d, ignore_errors=True)
    print('setup: %s' % ('ok' if not bad else '%d modules failed' % bad))
    return 0 if not bad else 2


def cmd_check(pid, tier):
    from harness import checklib, tlc
    seed = int(os.environ.get('VERIF_SEED', '1'))
    d = scratch_cwd()
    try:
        mod = importlib.import_module('checks.' + pid.lower())
        run = checklib.Run(pid, tier, seed, level=getattr(mod, 'LEVEL', 'model_checking'))
        mod.run(run)
        rc = run.finish()
        print('%s %s: %d cases replayed, %d states, %d divergences, %.0fs' % (
            pid, tier, run.cases, run.states, len(run.divs), time.time() - run.t0))
        return rc
    except tlc.MachineryError as e:
        print('MACHINERY ERROR (%s): %s' % (pid, e))
        return 2
    except Exception:
        print('MACHINERY ERROR (%s):' % pid)
        traceback.print_exc()
        return 2
    finally:
        os.chdir(VERIF)
        shutil.rmtree(d, ignore_errors=True)


def cmd_replay(path):
    from harness import replaytool
    path = os.path.abspath(path)
    d = scratch_cwd()
    try:
        return replaytool.replay(path)
    finally:
        os.chdir(VERIF)
        shutil.rmtree(d, ignore_errors=True)


def main():
    if len(sys.argv) < 2:
        print(__doc__)
        return 2
    c = sys.argv[1]
    if c == 'setup':
        return cmd_setup()
    if c == 'check':
        tier = sys.argv[3] if len(sys.argv) > 3 else os.environ.get('VERIF_TIER', 'quick')
        return cmd_check(sys.argv[2].upper(), tier)
    if c == 'replay':
        return cmd_replay(sys.argv[2])
    print(__doc__)
    return 2


if __name__ == '__main__':
    sys.exit(main())
