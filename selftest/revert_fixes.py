#!/venv/bin/python
"""revert_fixes.py [--only sha,...] [--tier quick]: every 'fix:' commit recorded in known_findings.json is reverted in a
scratch worktree of /repo (on top of HEAD) and the check of its property is run against that worktree: the check must
report a VIOLATION (the defect returns). A revert that no longer applies cleanly falls back to a hand-made patch in selftest/reintroduced/<sha>.diff that
re-introduces the defect on HEAD (reported as 'conflict' only if there is none)."""
import json
import os
import subprocess
import sys
import time

VERIF = os.path.dirname(os.path.dirname(os.path.abspath(__file__)))


def sh(cmd, **kw):
    return subprocess.run(cmd, shell=True, stdout=subprocess.PIPE, stderr=subprocess.STDOUT, text=True, **kw)


def main():
    only = None
    tier = 'quick'
    for a in sys.argv[1:]:
        if a.startswith('--only='):
            only = a.split('=')[1].split(',')
        if a.startswith('--tier='):
            tier = a.split('=')[1]
    fixed = json.load(open(os.path.join(VERIF, 'known_findings.json')))['fixed']
    out = []
    for f in fixed:
        sha = f['commit']
        if only and sha not in only:
            continue
        wt = '/var/tmp/revert-%s-%d' % (sha, os.getpid())
        r = sh('git -C /repo worktree add -q --detach %s HEAD' % wt)
        rec = {'commit': sha, 'property': f['property'], 'what': f['what'][:80]}
        try:
            rv = sh('git -C %s revert --no-commit %s' % (wt, sha))
            if rv.returncode:
                # later fixes rewrote the same lines: the defect is re-introduced on HEAD by a hand-made patch instead
                alt = os.path.join(VERIF, 'selftest', 'reintroduced', sha + '.diff')
                sh('git -C %s revert --abort' % wt)
                sh('git -C %s checkout -- .' % wt)
                if not os.path.exists(alt) or sh('git -C %s apply %s' % (wt, alt)).returncode:
                    rec['result'] = 'conflict'
                    out.append(rec)
                    print(json.dumps(rec), flush=True)
                    continue
                rec['how'] = 'revert conflicts with later fixes; defect re-introduced by selftest/reintroduced/%s.diff' % sha
                rt = sh('cd %s && /venv/bin/python -m pytest -q -p no:cacheprovider -x 2>&1 | tail -1' % wt)
                rec['tests_with_reintroduced_defect'] = rt.stdout.strip()[-60:]
            t0 = time.time()
            e = dict(os.environ, VERIF_REPO=wt)
            rc = sh('cd %s && /venv/bin/python run.py check %s %s' % (VERIF, f['property'], tier), env=e)
            rec['rc'] = rc.returncode
            rec['wall_s'] = round(time.time() - t0)
            rec['result'] = 'caught' if rc.returncode == 1 and 'VIOLATION' in rc.stdout else \
                ('machinery' if rc.returncode == 2 else 'MISSED')
            rec['lines'] = [l for l in rc.stdout.split('\n') if l.startswith('VIOLATION') or l.startswith('MACHINERY')][:3]
        finally:
            sh('git -C /repo worktree remove --force %s' % wt)
        out.append(rec)
        print(json.dumps(rec), flush=True)
    print('SUMMARY', {k: sum(1 for r in out if r['result'] == k) for k in ('caught', 'MISSED', 'conflict', 'machinery')})


if __name__ == '__main__':
    main()
