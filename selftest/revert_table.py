#!/venv/bin/python
"""revert_table.py <log files...>: merges the JSON lines printed by revert_fixes.py (last result per commit wins) and prints
the table of DESIGN.md section 10.1."""
import json
import os
import sys

ROOT = os.path.dirname(os.path.dirname(os.path.abspath(__file__)))
res = {}
for f in sys.argv[1:]:
    for line in open(f, errors='replace'):
        line = line.strip()
        if line.startswith('{') and '"commit"' in line:
            try:
                d = json.loads(line)
            except ValueError:
                continue
            res[d['commit']] = d
fixed = json.load(open(os.path.join(ROOT, 'known_findings.json')))['fixed']
print('| fix commit | property | defect that returns | how re-introduced | quick check of the property |')
print('|---|---|---|---|---|')
for f in fixed:
    d = res.get(f['commit'])
    how = 'git revert' if d and 'how' not in d else ('hand-made patch `selftest/reintroduced/%s.diff` (the revert conflicts with later fixes)' % f['commit'] if d else '-')
    out = 'not run' if not d else ('VIOLATION reported (%s s)' % d.get('wall_s') if d['result'] == 'caught' else d['result'])
    print('| `%s` | %s | %s | %s | %s |' % (f['commit'], f['property'], f['what'][:110].replace('|', '\\|'), how, out))
