#!/venv/bin/python
"""seed_check.py <seeded dir> [check ids...] [--tier quick] [--skip-confirm]
Confirms a seeded change (demo passes on the clean tree, fails with the patch; the 60 baseline tests pass with it) in a
scratch worktree of /repo and runs the given checks against that worktree (VERIF_REPO). Removes the worktree."""
import json
import os
import subprocess
import sys
import time

VERIF = os.path.dirname(os.path.dirname(os.path.abspath(__file__)))


def sh(cmd, **kw):
    return subprocess.run(cmd, shell=True, stdout=subprocess.PIPE, stderr=subprocess.STDOUT, text=True, **kw)


def main():
    args = [a for a in sys.argv[1:] if not a.startswith('--')]
    flags = [a for a in sys.argv[1:] if a.startswith('--')]
    seed = os.path.abspath(args[0])
    checks = args[1:]
    tier = 'quick'
    for f in flags:
        if f.startswith('--tier='):
            tier = f.split('=')[1]
    name = os.path.basename(seed.rstrip('/'))
    wt = '/var/tmp/seedrun-%s-%d' % (name, os.getpid())
    out = {'seed': name, 'checks': {}}
    r = sh('git -C /repo worktree add -q --detach %s HEAD' % wt)
    if r.returncode:
        print(r.stdout)
        return 2
    try:
        env = dict(os.environ, PYTHONPATH=wt, SEED_TREE=wt)
        demo = os.path.join(seed, 'demo.py')
        if '--skip-confirm' not in flags:
            r0 = sh('cd %s && /venv/bin/python %s' % (wt, demo), env=env)
            out['demo_clean_rc'] = r0.returncode
        ra = sh('git -C %s apply %s' % (wt, os.path.join(seed, 'patch.diff')))
        if ra.returncode:
            print('patch does not apply:', ra.stdout)
            return 2
        if '--skip-confirm' not in flags:
            r1 = sh('cd %s && /venv/bin/python %s' % (wt, demo), env=env)
            out['demo_patched_rc'] = r1.returncode
            rt = sh('cd %s && /venv/bin/python -m pytest -q -p no:cacheprovider -x -q 2>&1 | tail -3' % wt)
            out['tests_patched'] = rt.stdout.strip().split('\n')[-1]
        for c in checks:
            t0 = time.time()
            e = dict(os.environ, VERIF_REPO=wt)
            rc = sh('cd %s && /venv/bin/python run.py check %s %s' % (VERIF, c, tier), env=e)
            lines = [l for l in rc.stdout.split('\n') if l.startswith('VIOLATION') or l.startswith('KNOWN') or l.startswith('MACHINERY')]
            out['checks'][c] = {'rc': rc.returncode, 'wall_s': round(time.time() - t0), 'lines': lines[:6],
                                'tail': rc.stdout.strip().split('\n')[-3:]}
    finally:
        sh('git -C /repo worktree remove --force %s' % wt)
    print(json.dumps(out, indent=1))
    return 0


if __name__ == '__main__':
    sys.exit(main())
