#!/bin/sh
# quick tier of the checks with random phases under other seeds (evidence goes to .work/evidence-alt: VERIF_REPO=/repo/.)
cd "$(dirname "$0")/.."
for s in ${SEEDS:-2 5}; do
for c in ${CHECKS:-C05 C07 C09 C10 C11 C13 C14 C18 C19 C01 C06 C15 C12 C08 C03 C16}; do
  t0=$(date +%s)
  VERIF_SEED=$s VERIF_REPO=/repo/. timeout 2400 /venv/bin/python run.py check $c quick > /tmp/seedsweep_${c}_$s.log 2>&1
  echo "SEED $c seed=$s rc=$? $(( $(date +%s) - t0 ))s | $(grep -E '^(VIOLATION|KNOWN-FINDING|MACHINERY)' /tmp/seedsweep_${c}_$s.log | head -2 | cut -c1-200 | tr '\n' ';') $(tail -n 1 /tmp/seedsweep_${c}_$s.log | cut -c1-110)"
done
done
