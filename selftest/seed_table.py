#!/venv/bin/python
"""seed_table.py: prints the markdown table of DESIGN.md section 10.2 from seeded/*/meta.json."""
import glob
import json
import os
import re

ROOT = os.path.dirname(os.path.dirname(os.path.abspath(__file__)))


def key(p):
    n = os.path.basename(p)
    m = re.match(r'C(\d+)-(?:r(\d)-)?(\d+)', n)
    return (int(m.group(1)), int(m.group(2) or 1), int(m.group(3)))


def clip(s, n):
    s = ' '.join(str(s).split()).replace('|', '\\|')
    return s if len(s) <= n else s[:n - 3] + '...'


rows = []
for d in sorted(glob.glob(os.path.join(ROOT, 'seeded', 'C*')), key=key):
    m = json.load(open(os.path.join(d, 'meta.json')))
    v = m.get('verif', {})
    res = '%s %s: %s' % (v.get('check', m['property']), v.get('check_tier', 'quick'), 'caught' if v.get('caught') else 'NOT caught')
    note = v.get('note', '')
    if note and not note.startswith('caught by the first'):
        res += '; ' + note
    rows.append('| %s | %s | %s | %s |' % (os.path.basename(d), clip(m.get('what', ''), 230), clip(m.get('needs', ''), 200), clip(res, 400)))
print('| seed | what it changes | needs | result |')
print('|---|---|---|---|')
print('\n'.join(rows))
