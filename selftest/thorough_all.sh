#!/bin/sh
# runs the thorough tier of every check sequentially; one summary line per check (used to sanity-run the thorough commands)
cd "$(dirname "$0")/.."
for c in ${CHECKS:-C01 C02 C03 C04 C05 C06 C07 C08 C09 C10 C11 C12 C13 C14 C15 C16 C17 C18 C19}; do
  t0=$(date +%s)
  timeout ${PER_CHECK_TIMEOUT:-7200} /venv/bin/python run.py check $c thorough > /tmp/thorough_$c.log 2>&1
  rc=$?
  echo "THOROUGH $c rc=$rc $(( $(date +%s) - t0 ))s | $(grep -E '^(VIOLATION|KNOWN-FINDING|MACHINERY)' /tmp/thorough_$c.log | head -3 | cut -c1-200 | tr '\n' ';') $(tail -n 1 /tmp/thorough_$c.log | cut -c1-160)"
done
