#!/bin/sh
# every thorough command with tiny budgets: exercises the thorough-only code paths in a few minutes per check
cd "$(dirname "$0")/.."
for c in ${CHECKS:-C01 C02 C03 C04 C05 C06 C07 C08 C09 C10 C11 C12 C13 C14 C15 C16 C17 C18 C19}; do
  t0=$(date +%s)
  VERIF_REPO=/repo/. VERIF_PHASE_BUDGET=25 VERIF_CHECK_BUDGET=90 timeout 3600 /venv/bin/python run.py check $c thorough > /tmp/smoke_$c.log 2>&1
  echo "SMOKE $c rc=$? $(( $(date +%s) - t0 ))s | $(grep -E '^(VIOLATION|KNOWN-FINDING|MACHINERY)' /tmp/smoke_$c.log | head -2 | cut -c1-220 | tr '\n' ';') $(tail -n 1 /tmp/smoke_$c.log | cut -c1-120)"
done
