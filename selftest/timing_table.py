#!/venv/bin/python
"""timing_table.py: prints the per-check table of DESIGN.md section 5 from the committed evidence files."""
import glob
import json
import os

ROOT = os.path.dirname(os.path.dirname(os.path.abspath(__file__)))
print('| check | phases of the quick tier (name: cases or states, seconds) | cases replayed | TLC states | wall |')
print('|---|---|---|---|---|')
for f in sorted(glob.glob(os.path.join(ROOT, 'evidence', 'C*.json'))):
    d = json.load(open(f))
    c = d['coverage']
    ph = []
    for p in c.get('phases', []):
        n = p.get('name') or p.get('phase')
        if p.get('skipped'):
            ph.append('%s: skipped' % n)
            continue
        size = p.get('cases') if p.get('cases') is not None else p.get('distinct', p.get('traces'))
        ph.append('%s: %s, %s s' % (n, size, int(round(p.get('wall_s', 0)))))
    print('| %s | %s | %s | %s | %s s |' % (d['property_id'], '; '.join(ph).replace('|', '\\|'), c.get('traces_validated_against_impl'),
                                           c.get('states'), int(round(d.get('wall_s', 0)))))
