------------------------------- MODULE Apriori -------------------------------
(* C08: viability / necessity labels of an attack graph = the GREATEST fixed      *)
(* point of the property's equations.  A graph value is                            *)
(*   G = [ kind : [Node -> {"or","and","defense","exist","notExist"}],             *)
(*         par  : [Node -> SUBSET Node],          \* parents                        *)
(*         st   : [Node -> 0..10],                \* defense status (tenths) or, for*)
(*                                                \* exist/notExist, 10/0 = has/not *)
(*         dist : [Node -> BOOLEAN] ]             \* TTC is a probability distribution*)
(* C12: traversability / attack surface over such a graph with labels.             *)
EXTENDS Core

Nodes(G) == DOMAIN G.kind
IsSrc(G, n) == G.kind[n] \in {"defense", "exist", "notExist"}
\* sources are labelled from their own status
SrcV(G, n) == CASE G.kind[n] = "defense"  -> G.st[n] # 10          \* fully enabled defense: not viable
                [] G.kind[n] = "exist"    -> G.st[n] = 10
                [] G.kind[n] = "notExist" -> G.st[n] # 10
SrcN(G, n) == CASE G.kind[n] = "defense"  -> G.st[n] # 0           \* disabled defense: unnecessary
                [] G.kind[n] = "exist"    -> G.st[n] # 10
                [] G.kind[n] = "notExist" -> G.st[n] = 10
\* a parent whose TTC is a probability distribution always counts as necessary for its children
EffN(G, N, p) == N[p] \/ G.dist[p]

StepV(G, V) == [n \in Nodes(G) |->
   IF IsSrc(G, n) THEN SrcV(G, n)
   ELSE IF G.par[n] = {} THEN TRUE
   ELSE IF G.kind[n] = "or" THEN \E p \in G.par[n] : V[p] ELSE \A p \in G.par[n] : V[p]]
StepN(G, N) == [n \in Nodes(G) |->
   IF IsSrc(G, n) THEN SrcN(G, n)
   ELSE IF G.par[n] = {} THEN TRUE
   ELSE IF G.kind[n] = "or" THEN \A p \in G.par[n] : EffN(G, N, p) ELSE \E p \in G.par[n] : EffN(G, N, p)]
\* greatest fixed point by downward iteration from all-TRUE (the step functions are monotone)
RECURSIVE GfpV(_,_), GfpN(_,_)
GfpV(G, V) == LET W == [n \in Nodes(G) |-> V[n] /\ StepV(G, V)[n]] IN IF W = V THEN V ELSE GfpV(G, W)
GfpN(G, N) == LET W == [n \in Nodes(G) |-> N[n] /\ StepN(G, N)[n]] IN IF W = N THEN N ELSE GfpN(G, W)
AllTrue(G) == [n \in Nodes(G) |-> TRUE]
GFPV(G) == GfpV(G, AllTrue(G))
GFPN(G) == GfpN(G, AllTrue(G))
\* spec-level: the result satisfies the equations and dominates every other solution
IsSolV(G, V) == V = StepV(G, V)
IsSolN(G, N) == N = StepN(G, N)
GfpCorrect(G) ==
  /\ IsSolV(G, GFPV(G)) /\ IsSolN(G, GFPN(G))
  /\ \A V \in [Nodes(G) -> BOOLEAN] : IsSolV(G, V) => \A n \in Nodes(G) : V[n] => GFPV(G)[n]
  /\ \A N \in [Nodes(G) -> BOOLEAN] : IsSolN(G, N) => \A n \in Nodes(G) : N[n] => GFPN(G)[n]

(* ------------------------------- C12 ------------------------------------- *)
\* labelled graph for the queries: V, N arbitrary labels, R = nodes the attacker has compromised
Traversable(G, V, N, R, n) ==
  /\ V[n]
  /\ \/ G.kind[n] = "or"
     \/ G.kind[n] = "and" /\ \A p \in G.par[n] : N[p] => p \in R
ChildrenOf(G, X) == {c \in Nodes(G) : G.par[c] \cap X # {}}
Surface(G, V, N, R) == {c \in ChildrenOf(G, R) : Traversable(G, V, N, R, c)}
\* incremental update = recomputation (theorem checked by TLC): for R \subseteq R2
SurfaceIncr(G, V, N, R, R2) == Surface(G, V, N, R) \cup {c \in ChildrenOf(G, R2 \ R) : Traversable(G, V, N, R2, c)}
=============================================================================
