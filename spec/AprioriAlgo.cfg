SPECIFICATION Spec
INVARIANT ResultIsGFP
INVARIANT StackBounded
PROPERTY Monotone
CHECK_DEADLOCK FALSE
