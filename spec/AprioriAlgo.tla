----------------------------- MODULE AprioriAlgo -----------------------------
(* C08, design level: calculate_viability_and_necessity as a STEP MACHINE, the  *)
(* way the code has it - nodes visited in list order, sources evaluated, then   *)
(* two recursive propagations with an explicit stack of frames and a            *)
(* nondeterministic choice among the remaining children - for every graph and   *)
(* every node order.  Theorem: when the machine is done, the labels are the     *)
(* greatest fixed point (ResultIsGFP), labels only ever go from TRUE to FALSE   *)
(* (Monotone).  The two defects of the pinned tree are switches: with           *)
(* FixSelfLoop = FALSE or FixGate = FALSE TLC finds the counterexamples.        *)
EXTENDS Apriori, IOUtils
EnvOr(k, d) == IF k \in DOMAIN IOEnv THEN IOEnv[k] ELSE d
NN == atoi(EnvOr("VERIF_N", "2"))
NodeSet == 1..NN
KindSet == IF EnvOr("VERIF_KINDS", "all") = "all" THEN {"or", "and", "defense", "exist", "notExist"} ELSE {"or", "and", "defense"}
FixSelfLoop == EnvOr("VERIF_FIXSELFLOOP", "1") = "1"
FixGate == EnvOr("VERIF_FIXGATE", "1") = "1"
VARIABLES aG, aOrder, aV, aN, aPc, aPhase, aStack
avars == <<aG, aOrder, aV, aN, aPc, aPhase, aStack>>
StOK(k, st) == IF k = "defense" THEN st \in {0, 10} ELSE IF k \in {"exist", "notExist"} THEN st \in {0, 10} ELSE st = 0
Graphs == { g \in [kind : [NodeSet -> KindSet], par : [NodeSet -> SUBSET NodeSet], st : [NodeSet -> {0, 10}], dist : [NodeSet -> BOOLEAN]] :
              \A n \in NodeSet : StOK(g.kind[n], g.st[n]) /\ (g.dist[n] => g.kind[n] \in {"or", "and"}) }
Ch(n) == {c \in NodeSet : n \in aG.par[c]}
Init == /\ aG \in Graphs /\ aOrder \in Perms(NodeSet)
        /\ aV = [n \in NodeSet |-> TRUE] /\ aN = [n \in NodeSet |-> TRUE]
        /\ aPc = 1 /\ aPhase = "eval" /\ aStack = <<>>
Done == aPc > Len(aOrder)
Cur == aOrder[aPc]
\* evaluate_viability_and_necessity on a source node
Eval == /\ ~Done /\ aPhase = "eval" /\ aStack = <<>>
        /\ IF IsSrc(aG, Cur)
           THEN /\ aV' = [aV EXCEPT ![Cur] = SrcV(aG, Cur)] /\ aN' = [aN EXCEPT ![Cur] = SrcN(aG, Cur)]
                /\ aPhase' = "propV" /\ UNCHANGED <<aPc, aStack>>
           ELSE /\ aPc' = aPc + 1 /\ UNCHANGED <<aV, aN, aPhase, aStack>>
        /\ UNCHANGED <<aG, aOrder>>
StartV == /\ ~Done /\ aPhase = "propV" /\ aStack = <<>>
          /\ aStack' = IF ~aV[Cur] THEN <<[n |-> Cur, k |-> "V", rem |-> Ch(Cur)]>> ELSE <<>>
          /\ aPhase' = "propN" /\ UNCHANGED <<aG, aOrder, aV, aN, aPc>>
Gate(n) == aG.dist[n]
StartN == /\ ~Done /\ aPhase = "propN" /\ aStack = <<>>
          /\ aStack' = IF ~aN[Cur] THEN <<[n |-> Cur, k |-> "N", rem |-> IF Gate(Cur) THEN {} ELSE Ch(Cur)]>> ELSE <<>>
          /\ aPhase' = "next" /\ UNCHANGED <<aG, aOrder, aV, aN, aPc>>
Advance == /\ ~Done /\ aPhase = "next" /\ aStack = <<>>
           /\ aPc' = aPc + 1 /\ aPhase' = "eval" /\ UNCHANGED <<aG, aOrder, aV, aN, aStack>>
Top == aStack[Len(aStack)]
Pop == /\ aStack # <<>> /\ Top.rem = {} /\ aStack' = SubSeq(aStack, 1, Len(aStack) - 1)
       /\ UNCHANGED <<aG, aOrder, aV, aN, aPc, aPhase>>
\* the value the code computes for child c when a parent propagates
NewV(c) == IF aG.kind[c] = "or"
           THEN \E p \in aG.par[c] : (IF p = c /\ ~FixSelfLoop THEN FALSE ELSE aV[p])
           ELSE IF aG.kind[c] = "and" THEN FALSE ELSE aV[c]
NewN(c) == IF aG.kind[c] = "or" THEN FALSE
           ELSE IF aG.kind[c] = "and"
                THEN \E p \in aG.par[c] : (IF p = c /\ ~FixSelfLoop THEN FALSE ELSE (aN[p] \/ (FixGate /\ aG.dist[p])))
                ELSE aN[c]
Visit == /\ aStack # <<>> /\ Top.rem # {}
         /\ \E c \in Top.rem :
              LET k == Top.k
                  old == IF k = "V" THEN aV[c] ELSE aN[c]
                  new == IF k = "V" THEN NewV(c) ELSE NewN(c)
                  rest == [aStack EXCEPT ![Len(aStack)].rem = @ \ {c}]
              IN /\ aV' = IF k = "V" THEN [aV EXCEPT ![c] = new] ELSE aV
                 /\ aN' = IF k = "N" THEN [aN EXCEPT ![c] = new] ELSE aN
                 /\ aStack' = IF new # old
                              THEN Append(rest, [n |-> c, k |-> k, rem |-> IF k = "N" /\ Gate(c) THEN {} ELSE Ch(c)])
                              ELSE rest
         /\ UNCHANGED <<aG, aOrder, aPc, aPhase>>
Next == Eval \/ StartV \/ StartN \/ Advance \/ Pop \/ Visit
Spec == Init /\ [][Next]_avars
ResultIsGFP == Done => (aV = GFPV(aG) /\ aN = GFPN(aG))
Monotone == [][\A n \in NodeSet : (aV'[n] => aV[n]) /\ (aN'[n] => aN[n])]_avars
\* the propagation always terminates: the stack never grows beyond one frame per (node, label) change
StackBounded == Len(aStack) <= 2 * NN + 1
=============================================================================
