------------------------------- MODULE AtkRel -------------------------------
(* C11, unbounded in history length: a typed extract of GraphSM (sets and        *)
(* functions only) whose invariant IndInv == TypeOK /\ CompromiseMirror /\        *)
(* RefsInside is discharged as an INDUCTIVE invariant by Apalache:                *)
(*   apalache-mc check --init=Init    --inv=IndInv --length=0 AtkRel.tla          *)
(*   apalache-mc check --init=IndInit --inv=IndInv --length=1 AtkRel.tla          *)
(* The actions are the GraphSM effect operators DoAddNode / DoRemove /            *)
(* DoAddAttacker / DoRemoveAttacker / DoCompromise / DoUndo restricted to the     *)
(* compromise relations (reached, entry: attacker side; compBy: node side).       *)
EXTENDS Integers, FiniteSets
NodeH == {1, 2, 3, 4}
AtkH == {1, 2, 3}
VARIABLES
  \* @type: Set(Int);
  present,
  \* @type: Set(Int);
  presentA,
  \* @type: Int -> Set(Int);
  reached,
  \* @type: Int -> Set(Int);
  entry,
  \* @type: Int -> Set(Int);
  compBy
Init == /\ present = {} /\ presentA = {}
        /\ reached = [a \in AtkH |-> {}] /\ entry = [a \in AtkH |-> {}] /\ compBy = [h \in NodeH |-> {}]
AddNode(h) == h \notin present /\ present' = present \cup {h} /\ UNCHANGED <<presentA, reached, entry, compBy>>
AddAttacker(a) == a \notin presentA /\ presentA' = presentA \cup {a} /\ UNCHANGED <<present, reached, entry, compBy>>
Compromise(a, h) == /\ a \in presentA /\ h \in present
                    /\ compBy' = [compBy EXCEPT ![h] = @ \cup {a}] /\ reached' = [reached EXCEPT ![a] = @ \cup {h}]
                    /\ UNCHANGED <<present, presentA, entry>>
MarkEntry(a, h) == /\ a \in presentA /\ h \in reached[a] /\ entry' = [entry EXCEPT ![a] = @ \cup {h}]
                   /\ UNCHANGED <<present, presentA, reached, compBy>>
Undo(a, h) == /\ a \in presentA /\ h \in present
              /\ compBy' = [compBy EXCEPT ![h] = @ \ {a}] /\ reached' = [reached EXCEPT ![a] = @ \ {h}]
              /\ UNCHANGED <<present, presentA, entry>>
RemoveAttacker(a) == /\ a \in presentA /\ presentA' = presentA \ {a}
                     /\ compBy' = [h \in NodeH |-> compBy[h] \ {a}] /\ reached' = [reached EXCEPT ![a] = {}] /\ entry' = [entry EXCEPT ![a] = {}]
                     /\ UNCHANGED present
RemoveNode(h) == /\ h \in present /\ present' = present \ {h}
                 /\ reached' = [a \in AtkH |-> reached[a] \ {h}] /\ entry' = [a \in AtkH |-> entry[a] \ {h}]
                 /\ compBy' = [compBy EXCEPT ![h] = {}] /\ UNCHANGED presentA
Next == \/ \E h \in NodeH : AddNode(h) \/ RemoveNode(h)
        \/ \E a \in AtkH : AddAttacker(a) \/ RemoveAttacker(a)
        \/ \E a \in AtkH, h \in NodeH : Compromise(a, h) \/ Undo(a, h) \/ MarkEntry(a, h)
TypeOK == /\ present \subseteq NodeH /\ presentA \subseteq AtkH
          /\ reached \in [AtkH -> SUBSET NodeH] /\ entry \in [AtkH -> SUBSET NodeH] /\ compBy \in [NodeH -> SUBSET AtkH]
CompromiseMirror == \A a \in AtkH, h \in NodeH : (h \in reached[a]) <=> (a \in compBy[h])
RefsInside == /\ \A a \in AtkH : (reached[a] \cup entry[a]) \subseteq present
              /\ \A a \in AtkH : (a \notin presentA) => (reached[a] = {} /\ entry[a] = {})
              /\ \A h \in NodeH : compBy[h] \subseteq presentA
IndInv == TypeOK /\ CompromiseMirror /\ RefsInside
IndInit == /\ present \in SUBSET NodeH /\ presentA \in SUBSET AtkH
           /\ reached \in [AtkH -> SUBSET NodeH] /\ entry \in [AtkH -> SUBSET NodeH] /\ compBy \in [NodeH -> SUBSET AtkH]
           /\ CompromiseMirror /\ RefsInside
===========================================================================
