-------------------------------- MODULE Core --------------------------------
(* Shared vocabulary: the NONE token, sequence helpers, partial maps.          *)
(* Everything that crosses the TLC <-> Python boundary is in "TJ normal form": *)
(* NONE is the string "NONE", numbers are integers (defense values and TTC     *)
(* arguments in tenths), optional records have a constant shape with a         *)
(* `present` flag, sets travel as JSON arrays.                                  *)
EXTENDS Integers, Sequences, FiniteSets, TLC

NONE == "NONE"

Range(s) == {s[i] : i \in DOMAIN s}
Without(s, e) == SelectSeq(s, LAMBDA z : z # e)
NoRepeat(s) == \A p, q \in DOMAIN s : p # q => s[p] # s[q]
Contains(s, e) == \E i \in DOMAIN s : s[i] = e
AppendNew(s, e) == IF Contains(s, e) THEN s ELSE Append(s, e)

RECURSIVE Flat(_)
Flat(ss) == IF ss = <<>> THEN <<>> ELSE Head(ss) \o Flat(Tail(ss))
RECURSIVE SepBy(_,_)
SepBy(ss, sep) == IF ss = <<>> THEN <<>>
                  ELSE IF Len(ss) = 1 THEN ss[1] ELSE ss[1] \o sep \o SepBy(Tail(ss), sep)

\* sequences of length 0..n over a set
SeqsUpTo(S, n) == UNION { [1..k -> S] : k \in 0..n }
SeqsFrom1(S, n) == UNION { [1..k -> S] : k \in 1..n }
\* injective sequences (no repeated element)
InjSeqs(S, n) == { s \in SeqsUpTo(S, n) : NoRepeat(s) }
Perms(S) == { f \in [1..Cardinality(S) -> S] : NoRepeat(f) }

\* partial maps as functions over finite domains
Put(f, k, v) == [x \in DOMAIN f \cup {k} |-> IF x = k THEN v ELSE f[x]]
Del(f, k) == [x \in DOMAIN f \ {k} |-> f[x]]
EmptyMap == [x \in {} |-> 0]

\* a set as a sorted-free sequence (arbitrary but deterministic order): TLC's CHOOSE is deterministic
RECURSIVE SetToSeq(_)
SetToSeq(S) == IF S = {} THEN <<>> ELSE LET x == CHOOSE y \in S : TRUE IN <<x>> \o SetToSeq(S \ {x})

Max(S) == CHOOSE x \in S : \A y \in S : x >= y
Min(S) == CHOOSE x \in S : \A y \in S : x <= y
=============================================================================
