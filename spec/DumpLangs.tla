------------------------------ MODULE DumpLangs ------------------------------
(* Prints the language library as JSON (one line per language).               *)
EXTENDS Langs, Tok, Json
VARIABLE k
Init == k = 0
Next == k < Len(Library) /\ k' = k + 1
Spec == Init /\ [][Next]_k
Emit == k > 0 => PrintT(ToJson([kind |-> "lang", name |-> LibraryNames[k], wf |-> WellFormed(Library[k]), lang |-> Library[k], toks |-> LangToks(Library[k])]))
=============================================================================
