SPECIFICATION Spec
INVARIANT Emit
INVARIANT Distinguishable
CHECK_DEADLOCK FALSE
