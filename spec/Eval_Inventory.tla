---------------------------- MODULE Eval_Inventory ----------------------------
(* C06, class inventory: what the generated classes must expose for a language. *)
EXTENDS Langs, LangViews, Json
VARIABLE k
Init == k = 0
Next == k < Len(Library) /\ k' = k + 1
Spec == Init /\ [][Next]_k
Emit == k > 0 => PrintT(ToJson([kind |-> "inventory", name |-> LibraryNames[k], lang |-> Library[k], inv |-> Inventory(Library[k])]))
\* spec-level sanity: association classes are pairwise distinguishable
Distinguishable == \A n \in DOMAIN Library : \A i, j \in DOMAIN Library[n].assocs :
                     i # j => ClassName(Library[n], i) # ClassName(Library[n], j)
=============================================================================
