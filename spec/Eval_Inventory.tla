---------------------------- MODULE Eval_Inventory ----------------------------
(* C06, class inventory: what the generated classes must expose for a language. *)
EXTENDS Langs, Json
VARIABLE k
Init == k = 0
Next == k < Len(Library) /\ k' = k + 1
Spec == Init /\ [][Next]_k
Inventory(L) ==
  [ types   |-> { [name |-> T,
                   defs |-> { [d |-> d, dflt |-> DefenseDefault(L, T, d)] : d \in Defenses(L, T) },
                   nondef |-> StepNames(L, T) \ Defenses(L, T)] : T \in AssetNames(L) },
    classes |-> { [cls |-> i, lf |-> L.assocs[i].lf, rf |-> L.assocs[i].rf, lt |-> L.assocs[i].lt, rt |-> L.assocs[i].rt,
                   shared |-> NameShared(L, i), base |-> L.assocs[i].name] : i \in DOMAIN L.assocs } ]
Emit == k > 0 => PrintT(ToJson([kind |-> "inventory", name |-> LibraryNames[k], lang |-> Library[k], inv |-> Inventory(Library[k])]))
\* spec-level sanity: association classes are pairwise distinguishable
Distinguishable == \A n \in DOMAIN Library : \A i, j \in DOMAIN Library[n].assocs :
                     i # j => ClassName(Library[n], i) # ClassName(Library[n], j)
=============================================================================
