SPECIFICATION Spec
INVARIANT Emit
INVARIANT BrokenIllFormed
CHECK_DEADLOCK FALSE
