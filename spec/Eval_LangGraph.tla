---------------------------- MODULE Eval_LangGraph ----------------------------
(* C15: what a language graph must contain for a language, and the ill-formed   *)
(* variants whose construction must be reported as an error.                     *)
EXTENDS Langs, LangViews, Json, TLC
VARIABLE k
Init == k = 0
Next == k < 2 * Len(Library) /\ k' = k + 1
Spec == Init /\ [][Next]_k
\* ill-formed variants (each must be rejected with an error)
Broken(L) ==
  << [why |-> "unknown super asset", lang |-> [L EXCEPT !.assets[Len(L.assets)].super = "Nope"]],
     [why |-> "unknown left association end", lang |-> [L EXCEPT !.assocs[1].lt = "Nope"]],
     [why |-> "unknown right association end", lang |-> [L EXCEPT !.assocs[Len(L.assocs)].rt = "Nope"]],
     [why |-> "unknown step target", lang |-> [L EXCEPT !.assets[1].steps = Append(@, Or("zzbroken", Ovr(<< St("nosuchstep") >>)))]],
     [why |-> "unknown field", lang |-> [L EXCEPT !.assets[1].steps = Append(@, Or("zzbroken", Ovr(<< Col(F("nosuchfield"), St("x")) >>)))]] >>
\* every library language also with its assets declared in reverse order (sub-assets before their super-assets)
Rev(s) == [i \in DOMAIN s |-> s[Len(s) + 1 - i]]
LangAt(j) == IF j <= Len(Library) THEN Library[j] ELSE [Library[j - Len(Library)] EXCEPT !.assets = Rev(@)]
OrigAt(j) == IF j <= Len(Library) THEN Library[j] ELSE Library[j - Len(Library)]
NameAt(j) == IF j <= Len(Library) THEN LibraryNames[j] ELSE LibraryNames[j - Len(Library)] \o "_reversed"
Emit == k > 0 => PrintT(ToJson([name |-> NameAt(k), lang |-> LangAt(k), exp |-> Expected(LangAt(k)),
                                broken |-> Broken(OrigAt(k))]))
BrokenIllFormed == k > 0 => (WellFormed(LangAt(k)) /\ \A b \in Range(Broken(OrigAt(k))) : ~WellFormed(b.lang))
=============================================================================
