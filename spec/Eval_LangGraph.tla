---------------------------- MODULE Eval_LangGraph ----------------------------
(* C15: what a language graph must contain for a language, and the ill-formed   *)
(* variants whose construction must be reported as an error.                     *)
EXTENDS Langs, Json, TLC
VARIABLE k
Init == k = 0
Next == k < Len(Library) /\ k' = k + 1
Spec == Init /\ [][Next]_k
AllFieldNames(L) == {L.assocs[i].lf : i \in DOMAIN L.assocs} \cup {L.assocs[i].rf : i \in DOMAIN L.assocs}
LookupExp(L, f1, f2, T1, T2) ==
  {i \in DOMAIN L.assocs :
     \/ L.assocs[i].lf = f1 /\ L.assocs[i].rf = f2 /\ IsSub(L, T1, L.assocs[i].lt) /\ IsSub(L, T2, L.assocs[i].rt)
     \/ L.assocs[i].lf = f2 /\ L.assocs[i].rf = f1 /\ IsSub(L, T2, L.assocs[i].lt) /\ IsSub(L, T1, L.assocs[i].rt)}
\* static step-to-step links: from step s exposed by T to step t on the static target type of each reaches expression
Links(L) == UNION { UNION { { [T |-> T, s |-> Fold(L, T)[i].name, U |-> ReachTargetType(L, Fold(L, T)[i].reaches.exprs[j], T),
                               t |-> ReachStep(Fold(L, T)[i].reaches.exprs[j])] : j \in DOMAIN Fold(L, T)[i].reaches.exprs }
                            : i \in DOMAIN Fold(L, T) } : T \in AssetNames(L) }
Expected(L) ==
  [ assets |-> { [name |-> T, super |-> SuperOf(L, T), subs |-> {U \in AssetNames(L) : SuperOf(L, U) = T},
                  allsubs |-> Subs(L, T), allsupers |-> Anc(L, T),
                  assocs |-> {i \in DOMAIN L.assocs : IsSub(L, T, L.assocs[i].lt) \/ IsSub(L, T, L.assocs[i].rt)},
                  steps |-> StepNames(L, T)] : T \in AssetNames(L) },
    issub |-> { <<T, U>> \in AssetNames(L) \X AssetNames(L) : IsSub(L, T, U) },
    lookups |-> { [f1 |-> f1, f2 |-> f2, T1 |-> T1, T2 |-> T2, idx |-> LookupExp(L, f1, f2, T1, T2)] :
                    f1 \in AllFieldNames(L), f2 \in AllFieldNames(L), T1 \in AssetNames(L), T2 \in AssetNames(L) },
    links |-> Links(L) ]
\* ill-formed variants (each must be rejected with an error)
Broken(L) ==
  << [why |-> "unknown super asset", lang |-> [L EXCEPT !.assets[Len(L.assets)].super = "Nope"]],
     [why |-> "unknown left association end", lang |-> [L EXCEPT !.assocs[1].lt = "Nope"]],
     [why |-> "unknown right association end", lang |-> [L EXCEPT !.assocs[Len(L.assocs)].rt = "Nope"]],
     [why |-> "unknown step target", lang |-> [L EXCEPT !.assets[1].steps = Append(@, Or("zzbroken", Ovr(<< St("nosuchstep") >>)))]],
     [why |-> "unknown field", lang |-> [L EXCEPT !.assets[1].steps = Append(@, Or("zzbroken", Ovr(<< Col(F("nosuchfield"), St("x")) >>)))]] >>
Emit == k > 0 => PrintT(ToJson([name |-> LibraryNames[k], lang |-> Library[k], exp |-> Expected(Library[k]),
                                broken |-> Broken(Library[k])]))
BrokenIllFormed == k > 0 => \A b \in Range(Broken(Library[k])) : ~WellFormed(b.lang)
=============================================================================
