SPECIFICATION Spec
INVARIANT Emit
INVARIANT Theorem
CHECK_DEADLOCK FALSE
