SPECIFICATION Spec
INVARIANT Emit
INVARIANT Theorem
INVARIANT ExtensionLemma
CHECK_DEADLOCK FALSE
