----------------------------- MODULE Gen_Apriori -----------------------------
(* C08 case generator: EVERY labelled graph over N nodes (kinds, parent sets   *)
(* incl. cycles and self-loops, defense / existence statuses, TTC kinds) with  *)
(* the greatest-fixed-point labelling the specification assigns to it; and the *)
(* spec-level theorem that GFP* is a solution dominating every other solution. *)
EXTENDS Apriori, Json, IOUtils
EnvOr(k, d) == IF k \in DOMAIN IOEnv THEN IOEnv[k] ELSE d
NN == atoi(EnvOr("VERIF_N", "2"))
NodeSet == 1..NN
KindSet == IF EnvOr("VERIF_KINDS", "all") = "all" THEN {"or", "and", "defense", "exist", "notExist"}
           ELSE {"or", "and", "defense"}
SelfLoops == EnvOr("VERIF_SELFLOOPS", "1") = "1"
ParSets == [NodeSet -> SUBSET NodeSet]
StOK(k, st) == IF k = "defense" THEN st \in {0, 5, 10} ELSE IF k \in {"exist", "notExist"} THEN st \in {0, 10} ELSE st = 0
VARIABLES phase, gr
Init == phase = 0 /\ gr = <<>>
\* a seeded slice of the graph space (quick tier): keep graphs whose parent relation hashes into the slice
Slices == atoi(EnvOr("VERIF_SLICES", "1"))
Slice == atoi(EnvOr("VERIF_SLICE", "0"))
EdgeCode(par) == LET RECURSIVE S(_) S(n) == IF n = 0 THEN 0 ELSE S(n - 1) * 7 + Cardinality(par[n]) * 3 + (IF n \in par[n] THEN 1 ELSE 0) + (IF 1 \in par[n] THEN 2 ELSE 0) IN S(NN)
Choose == /\ phase = 0 /\ phase' = 1
          /\ \E kind \in [NodeSet -> KindSet], par \in ParSets, dist \in [NodeSet -> BOOLEAN], st \in [NodeSet -> {0, 5, 10}], supp \in BOOLEAN :
               /\ \A n \in NodeSet : StOK(kind[n], st[n])
               /\ SelfLoops \/ \A n \in NodeSet : n \notin par[n]
               /\ EdgeCode(par) % Slices = Slice
               /\ \A n \in NodeSet : dist[n] => kind[n] \in {"or", "and"}
               /\ (supp => \E n \in NodeSet : kind[n] = "defense")
               /\ gr' = [kind |-> kind, par |-> par, st |-> st, dist |-> dist, supp |-> supp]
Spec == Init /\ [][Choose]_<<phase, gr>>
Flags(G) == (IF \E n \in Nodes(G) : n \in G.par[n] THEN {"selfloop"} ELSE {})
       \cup (IF \E n \in Nodes(G) : G.dist[n] /\ \E c \in Nodes(G) : n \in G.par[c] THEN {"distparent"} ELSE {})
       \cup (IF \E n \in Nodes(G) : IsSrc(G, n) /\ G.par[n] # {} THEN {"source_with_parents"} ELSE {})
Emit == phase = 1 => PrintT(ToJson([n |-> NN, kind |-> gr.kind, par |-> gr.par, st |-> gr.st, dist |-> gr.dist, supp |-> gr.supp,
                                    V |-> GFPV(gr), N |-> GFPN(gr), flags |-> Flags(gr)]))
Theorem == phase = 1 => GfpCorrect(gr)
\* Extension lemma (re-analysis after the graph grew): labels depend on ancestors only, so for every ANCESTOR-CLOSED set
\* S of nodes the labelling of the graph restricted to S agrees with the labelling of the whole graph on S. Hence: analyse
\* the part S, add the remaining nodes and edges (none of them points into S), analyse again = analyse the whole graph.
AncClosed(G, S) == \A n \in S : G.par[n] \subseteq S
SubG(G, S) == [kind |-> [n \in S |-> G.kind[n]], par |-> [n \in S |-> G.par[n]], st |-> [n \in S |-> G.st[n]], dist |-> [n \in S |-> G.dist[n]]]
ExtensionLemma == phase = 1 => \A S \in SUBSET NodeSet : (S # {} /\ AncClosed(gr, S)) =>
                                   /\ \A n \in S : GFPV(SubG(gr, S))[n] = GFPV(gr)[n]
                                   /\ \A n \in S : GFPN(SubG(gr, S))[n] = GFPN(gr)[n]
=============================================================================
