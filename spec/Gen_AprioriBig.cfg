SPECIFICATION Spec
INVARIANT Emit
INVARIANT Solution
INVARIANT SameAsSmall
INVARIANT ChainInduction
CHECK_DEADLOCK FALSE
