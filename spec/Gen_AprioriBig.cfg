SPECIFICATION Spec
INVARIANT Emit
INVARIANT Solution
INVARIANT SameAsSmall
INVARIANT ChainInduction
INVARIANT PruneSane
CHECK_DEADLOCK FALSE
