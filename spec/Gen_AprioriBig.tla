---------------------------- MODULE Gen_AprioriBig ----------------------------
(* C08, larger graphs: parametrised FAMILIES of labelled graphs with tens to   *)
(* hundreds of nodes (the exhaustive generator Gen_Apriori stops at 4 nodes).  *)
(* A family member is fixed by (shape, length, kind pattern, source kind and   *)
(* status, position of a step whose TTC is a distribution); its expected       *)
(* labelling is the same greatest fixed point Apriori!StepV / StepN define,    *)
(* computed by the downward iteration from all-TRUE (BigV / BigN below: the    *)
(* iteration of Apriori!GfpV with the step function evaluated once per round). *)
(* Checked by TLC for every member: the labelling IS a solution of the         *)
(* equations (Solution), agrees with Apriori!GFPV / GFPN on the short members  *)
(* (SameAsSmall), and - chains only - equals the closed form obtained by       *)
(* induction along the chain (ChainInduction).                                 *)
EXTENDS Apriori, Json, IOUtils
EnvOr(k, d) == IF k \in DOMAIN IOEnv THEN IOEnv[k] ELSE d
\* lengths: a comma-free encoding, three numbers
L1 == atoi(EnvOr("VERIF_L1", "12"))
L2 == atoi(EnvOr("VERIF_L2", "120"))
L3 == atoi(EnvOr("VERIF_L3", "0"))          \* 0 = none; the long members (chain / skip shapes only)
Shapes == {"chain", "back", "ladder", "skip", "fan", "mesh"}
Pats == {"or", "and", "alt", "alt3"}
Srcs == {<<"defense", 0>>, <<"defense", 5>>, <<"defense", 10>>, <<"exist", 0>>, <<"exist", 10>>, <<"notExist", 0>>, <<"notExist", 10>>}
DistPos == {"none", "mid", "second"}

\* number of source nodes at the head of the graph
NSrc(shape) == IF shape \in {"ladder", "fan", "mesh"} THEN 2 ELSE 1
KindAt(pat, i) == CASE pat = "or" -> "or" [] pat = "and" -> "and"
                    [] pat = "alt" -> (IF i % 2 = 0 THEN "or" ELSE "and")
                    [] pat = "alt3" -> (IF i % 3 = 0 THEN "and" ELSE "or")
ParAt(shape, L, i) ==
  CASE shape = "chain"  -> (IF i = 1 THEN {} ELSE {i - 1})
    [] shape = "back"   -> (IF i = 1 THEN {} ELSE IF i = 2 THEN {1, L} ELSE {i - 1})          \* one cycle through the whole chain
    [] shape = "ladder" -> (IF i <= 2 THEN {} ELSE IF i % 3 = 0 THEN {i - 1, i - 2} ELSE {i - 2}) \* two rails with rungs
    [] shape = "skip"   -> (IF i = 1 THEN {} ELSE IF i > 3 THEN {i - 1, i - 3} ELSE {i - 1})
    \* pseudo-random parents of in-degree <= 3 anywhere in the graph: forward and backward edges, cycles, self-loops
    [] shape = "mesh"   -> (IF i <= 2 THEN {} ELSE {((i * 7 + 3) % L) + 1, ((i * i + 1) % L) + 1, i - 1} \ {1 + (i % 2)})
    [] shape = "fan"    -> (IF i <= 2 THEN {} ELSE IF i % 4 = 3 THEN {1, i - 1} \ {i} ELSE IF i % 4 = 0 THEN {2, i - 1} ELSE {i - 1})
\* the second source (ladder, fan): a defense whose status is the opposite extreme of the first source's
Src2St(src) == IF src[2] = 10 THEN 0 ELSE 10
Graph(shape, L, pat, src, dp) ==
  LET ns == NSrc(shape)
      dn == IF dp = "none" THEN 0 ELSE IF dp = "mid" THEN L \div 2 ELSE ns + 1 IN
  [kind |-> [i \in 1..L |-> IF i = 1 THEN src[1] ELSE IF i <= ns THEN "defense" ELSE KindAt(pat, i)],
   par  |-> [i \in 1..L |-> ParAt(shape, L, i)],
   st   |-> [i \in 1..L |-> IF i = 1 THEN src[2] ELSE IF i <= ns THEN Src2St(src) ELSE 0],
   dist |-> [i \in 1..L |-> i = dn /\ i > ns],
   supp |-> FALSE]

RECURSIVE BigVIt(_,_), BigNIt(_,_)
BigVIt(G, V) == LET S == StepV(G, V) W == [n \in Nodes(G) |-> V[n] /\ S[n]] IN IF W = V THEN V ELSE BigVIt(G, W)
BigNIt(G, N) == LET S == StepN(G, N) W == [n \in Nodes(G) |-> N[n] /\ S[n]] IN IF W = N THEN N ELSE BigNIt(G, W)
BigV(G) == BigVIt(G, AllTrue(G))
BigN(G) == BigNIt(G, AllTrue(G))

VARIABLES phase, gr, fam, lv, ln
vars == <<phase, gr, fam, lv, ln>>
Init == phase = 0 /\ gr = <<>> /\ fam = <<>> /\ lv = <<>> /\ ln = <<>>
LongOK(shape, dp) == shape \in {"chain", "skip"} /\ dp # "second"
\* two steps, so that TLC's workers share the computation of the labellings: pick the member, then build and label it
Choose == /\ phase = 0 /\ phase' = 1 /\ UNCHANGED <<gr, lv, ln>>
          /\ \E shape \in Shapes, pat \in Pats, src \in Srcs, dp \in DistPos, L \in {L1, L2, L3} \ {0} :
               /\ (L = L3 /\ L3 # L2 /\ L3 # L1) => LongOK(shape, dp)
               /\ fam' = [shape |-> shape, pat |-> pat, src |-> src[1], st |-> src[2], dist |-> dp, len |-> L]
Label == /\ phase = 1 /\ phase' = 2 /\ UNCHANGED fam
         /\ gr' = Graph(fam.shape, fam.len, fam.pat, <<fam.src, fam.st>>, fam.dist)
         /\ lv' = BigV(gr') /\ ln' = BigN(gr')
Spec == Init /\ [][Choose \/ Label]_vars
Flags(G) == {"big", fam.shape, fam.pat} \cup (IF fam.dist # "none" THEN {"distparent"} ELSE {})
\* C13 on the families: pruning after the analysis removes exactly the 'or' / 'and' steps that are not viable or not
\* necessary (GraphSM!Prunable on the labelled graph); everything else stays, with its labels and its remaining edges
BigPrunable == {n \in Nodes(gr) : gr.kind[n] \in {"or", "and"} /\ (~lv[n] \/ ~ln[n])}
\* spec-level sanity: sources are never pruned, and a kept step keeps at least the labels (viable, necessary)
PruneSane == phase = 2 => \A n \in Nodes(gr) \ BigPrunable : IsSrc(gr, n) \/ (lv[n] /\ ln[n])
Emit == phase = 2 => PrintT(ToJson([n |-> fam.len, prunable |-> BigPrunable, kind |-> gr.kind, par |-> gr.par, st |-> gr.st, dist |-> gr.dist, supp |-> gr.supp,
                                    V |-> lv, N |-> ln, flags |-> Flags(gr), family |-> fam]))
\* the labelling satisfies the equations of the property
Solution == phase = 2 => IsSolV(gr, lv) /\ IsSolN(gr, ln)
\* on the short members it is the labelling of the exhaustively validated definition (greatest by GfpCorrect there)
SameAsSmall == (phase = 2 /\ fam.len <= 12) => lv = GFPV(gr) /\ ln = GFPN(gr)
\* closed form by induction along a chain: every step has the single parent i-1, so both 'or' and 'and' copy the parent's
\* viability; necessity is copied too unless the parent's TTC is a distribution (then the child is necessary)
RECURSIVE ChainV(_,_), ChainN(_,_)
ChainV(G, i) == IF i = 1 THEN SrcV(G, 1) ELSE ChainV(G, i - 1)
ChainN(G, i) == IF i = 1 THEN SrcN(G, 1) ELSE IF G.dist[i - 1] THEN TRUE ELSE ChainN(G, i - 1)
ChainInduction == (phase = 2 /\ fam.shape = "chain") => \A i \in {1, 2, fam.len \div 2, fam.len \div 2 + 1, fam.len} :
                                                              lv[i] = ChainV(gr, i) /\ ln[i] = ChainN(gr, i)
=============================================================================
