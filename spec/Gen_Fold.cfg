SPECIFICATION Spec
INVARIANT Emit
INVARIANT Pure
CHECK_DEADLOCK FALSE
