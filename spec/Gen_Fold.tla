------------------------------- MODULE Gen_Fold -------------------------------
(* C03: step inheritance and purity of the lookup.                               *)
(* InheritFamily: a chain R0 < R1 < R2 < R3 < R4 plus a sibling Sib < R1; step   *)
(* "s" is declared on R0 with or without a reaches clause and at every other     *)
(* level in one of four modes: absent / redeclared without reaches / '->' / '+>'. *)
(* LookupSM: the language never changes; every lookup, language-graph             *)
(* regeneration and attack-graph generation answers Fold(L, T).                   *)
EXTENDS Langs, Json, IOUtils, TLC
EnvOr(k, d) == IF k \in DOMAIN IOEnv THEN IOEnv[k] ELSE d
Levels == <<"R1", "R2", "R3", "R4", "Sib">>
Modes == {"absent", "noreach", "override", "extend"}
Decl(lv, mode, i) ==
  CASE mode = "absent"   -> <<>>
    [] mode = "noreach"  -> << S("s", "or", <<"tag" \o lv>>, NoRisk, Expo(i), <<>>, NoX, NoR) >>
    [] mode = "override" -> << S("s", "or", <<"tag" \o lv>>, NoRisk, Expo(i), <<>>, NoX, Ovr(<< St("t" \o ToString(i)) >>)) >>
    \* every second level navigates through the root's variable "vr" (= the field fr) instead of the field itself
    [] mode = "extend"   -> << S("s", "or", <<"tag" \o lv>>, NoRisk, Expo(i), <<>>, NoX,
                                Ext(<< Col(IF i % 2 = 0 THEN Var("vr") ELSE F("fr"), St("t" \o ToString(i))) >>)) >>
Targets == << Or("t0", NoR), Or("t1", NoR), Or("t2", NoR), Or("t3", NoR), Or("t4", NoR), Or("t5", NoR) >>
FamilyLang(rootHas, m) ==
  Language("org.verif.fam",
    \* "s2" is declared exactly like "s" and never redefined below: it must stay as it is whatever happens to "s"
    << Asset("R0", NONE, << LetV("vr", F("fr")) >>, << S("s", "or", <<"root">>, NoRisk, Bern(5), <<>>, NoX, IF rootHas THEN Ovr(<< St("t0") >>) ELSE NoR),
                                                       S("s2", "or", <<"root">>, NoRisk, Bern(5), <<>>, NoX, IF rootHas THEN Ovr(<< St("t0") >>) ELSE NoR) >> \o Targets),
       Asset("R1", "R0", <<>>, Decl("R1", m[1], 1)),
       Asset("R2", "R1", <<>>, Decl("R2", m[2], 2)),
       Asset("R3", "R2", <<>>, Decl("R3", m[3], 3)),
       Asset("R4", "R3", <<>>, Decl("R4", m[4], 4)),
       Asset("Sib", "R1", <<>>, Decl("Sib", m[5], 5)) >>,
    << AssocMany("Lk", "R0", "fl", "fr", "R0") >>)
\* the same language with its assets DECLARED in another order (a language is a set of declarations)
Orders == << <<1, 2, 3, 4, 5, 6>>, <<6, 5, 4, 3, 2, 1>>, <<4, 2, 5, 1, 6, 3>> >>
Reordered(L, p) == [L EXCEPT !.assets = [i \in DOMAIN L.assets |-> L.assets[p[i]]]]
Family == { FamilyLang(rh, m) : rh \in BOOLEAN, m \in [1..5 -> Modes] }

VARIABLES lng, ops
Types6 == {"R0", "R1", "R2", "R3", "R4", "Sib"}
MaxOps == atoi(EnvOr("VERIF_DEPTH", "3"))
Slices == atoi(EnvOr("VERIF_SLICES", "1"))
SliceNo == atoi(EnvOr("VERIF_SLICE", "0"))
ModeCode(m) == LET c(x) == CASE x = "absent" -> 0 [] x = "noreach" -> 1 [] x = "override" -> 2 [] x = "extend" -> 3
               IN c(m[1]) + 4 * c(m[2]) + 16 * c(m[3]) + 64 * c(m[4]) + 256 * c(m[5])
Init == lng = <<>> /\ ops = <<>>
Pick == /\ lng = <<>> /\ \E rh \in BOOLEAN, m \in [1..5 -> Modes] :
                            /\ ModeCode(m) % Slices = SliceNo
                            /\ lng' = Reordered(FamilyLang(rh, m), Orders[1 + ((ModeCode(m) + (IF rh THEN 1 ELSE 0)) % 3)])
        /\ UNCHANGED ops
\* LookupSM: none of the operations changes the language
Lookup(T) == lng # <<>> /\ Len(ops) < MaxOps /\ ops' = Append(ops, [op |-> "Lookup", T |-> T]) /\ UNCHANGED lng
Regen     == lng # <<>> /\ Len(ops) < MaxOps /\ ops' = Append(ops, [op |-> "RegenLangGraph"]) /\ UNCHANGED lng
GenAG     == lng # <<>> /\ Len(ops) < MaxOps /\ ops' = Append(ops, [op |-> "GenAttackGraph"]) /\ UNCHANGED lng
Next == Pick \/ (\E T \in Types6 : Lookup(T)) \/ Regen \/ GenAG
Spec == Init /\ [][Next]_<<lng, ops>>
FoldOut(L, T) == [i \in DOMAIN Fold(L, T) |->
                    LET s == Fold(L, T)[i] IN
                    [name |-> s.name, kind |-> s.kind, ttc |-> s.ttc, tags |-> s.tags,
                     present |-> s.reaches.present, exprs |-> s.reaches.exprs]]
Emit == (lng # <<>> /\ Len(ops) = MaxOps) =>
          PrintT(ToJson([lang |-> lng, ops |-> ops, folds |-> [T \in Types6 |-> FoldOut(lng, T)]]))
\* spec-level theorems
Pure == lng # <<>> => (WellFormed(lng) /\ FoldIgnoresOthers(lng))
=============================================================================
