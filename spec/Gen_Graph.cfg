SPECIFICATION GSpec
CONSTANTS
  Lng <- LngDef
  NamePool = {"n1", "NONE"}
  IdPool <- IdPoolNone
  FreshPool = {}
  AutoNames = {}
  DefVals <- DefValsGraph
  StepPool = {}
  ExtrasPool = {}
  MaxAssets <- MaxAssetsDef
  MaxAssocs <- MaxAssocsDef
  MaxAtk = 0
  MaxH = 30
  MaxMembers <- MaxMembersDef
VIEW GView
CONSTRAINT Bound
INVARIANT EmitG
INVARIANT SpecEdges
INVARIANT SpecNoTransExact
CHECK_DEADLOCK FALSE
