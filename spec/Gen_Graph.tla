------------------------------ MODULE Gen_Graph ------------------------------
(* C01 / C02 / C15 / C16 case generator: every instance model reachable by      *)
(* accepted ModelSM calls (assets of any type, valid associations incl. shared   *)
(* targets, many-to-many, cycles, self-links; non-default defenses) in a bounded *)
(* universe, each printed ONCE with the attack graph the specification assigns   *)
(* to it (nodes with attributes, lower and upper edge bound).                    *)
EXTENDS MC_Model, Json
GOps == {"AddAsset", "AddAssociation", "SetDefense"}
GNext == NextP(TRUE) /\ vAct'.res = "ok" /\ vAct'.op \in GOps
GSpec == Init /\ [][GNext]_mvars
\* one representative per model: association order and handle/id counters are irrelevant
GView == <<vAssets, {[cls |-> vAssocs[k].cls, l |-> vAssocs[k].l, r |-> vAssocs[k].r] : k \in DOMAIN vAssocs}>>
Order == [k \in DOMAIN vAssets |-> vAssets[k].h]
Exp == GraphExp(Lng, ModelVal, Order)
MinAssets == atoi(EnvOr("VERIF_MINASSETS", "1"))
MinEdges == atoi(EnvOr("VERIF_MINEDGES", "0"))
EmitG == (Len(vAssets) >= MinAssets /\ (MinEdges = 0 \/ Cardinality(EdgesHi(Lng, ModelVal)) >= MinEdges)) =>
           PrintT(ToJson([lang |-> EnvOr("VERIF_LANG", "LTiny"), assets |-> vAssets, assocs |-> vAssocs, exp |-> Exp,
                          abs |-> AbsLegacy, neo |-> [nodes |-> NeoNodes, rels |-> NeoRels]]))
\* spec-level theorems over every explored pair
SpecEdges == EdgesWellFormed(Lng, ModelVal)
SpecNoTransExact == (\A T \in AssetNames(Lng) : \A i \in DOMAIN Fold(Lng, T) :
                        \A k \in DOMAIN Fold(Lng, T)[i].reaches.exprs : ~HasTransitive(Fold(Lng, T)[i].reaches.exprs[k]))
                    => EdgesLo(Lng, ModelVal) = EdgesHi(Lng, ModelVal)
Depth == atoi(EnvOr("VERIF_DEPTH", "5"))
Bound == TLCGet("level") <= Depth
=============================================================================
