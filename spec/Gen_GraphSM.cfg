SPECIFICATION GenGSpec
CONSTANTS
  Lng <- LngDef
  NamePool = {"n1", "NONE"}
  IdPool <- IdPoolNone
  FreshPool = {}
  AutoNames = {}
  DefVals <- DefValsGraph
  StepPool <- StepPoolG
  ExtrasPool = {}
  MaxAssets = 3
  MaxAssocs = 3
  MaxAtk = 2
  MaxH = 40
  MaxMembers = 2
  MaxNodes <- MaxNodesDef
  ExtraKinds = {"or", "and"}
  GIdPool <- GIdPoolDef
  TouchKinds <- TouchKindsDef
  GMaxAtk <- GMaxAtkDef
  GOpsOn <- GOpsDef
CONSTRAINT GBound
INVARIANT EmitH
CHECK_DEADLOCK FALSE
