----------------------------- MODULE Gen_GraphSM -----------------------------
(* Generation of GraphSM behaviours (history variable, one JSON line per      *)
(* behaviour): fixed-model BFS slices and free simulation with model building. *)
EXTENDS MC_Graph, Json
VARIABLE hist
Depth == atoi(EnvOr("VERIF_DEPTH", "4"))
Free == EnvOr("VERIF_FREE", "0") = "1"
GenGInit == (IF Free THEN GInit ELSE FixedInit) /\ hist = <<>>
GenGNext == \/ GraphNext /\ hist' = Append(hist, [k |-> "g", act |-> gAct', obs |-> GObs'])
            \/ Free /\ ModelStep(TRUE) /\ vAct'.res = "ok" /\ hist' = Append(hist, [k |-> "m", act |-> vAct', obs |-> Obs'])
GenGSpec == GenGInit /\ [][GenGNext]_<<allvars, hist>>
GBound == TLCGet("level") <= Depth
MinG == atoi(EnvOr("VERIF_MING", "1"))
EmitH == (TLCGet("level") = Depth + 1 /\ Cardinality({i \in DOMAIN hist : hist[i].k = "g"}) >= MinG) =>
            PrintT(ToJson([lang |-> EnvOr("VERIF_LANG", "LTiny"),
                           model |-> IF Free THEN [assets |-> <<>>, assocs |-> <<>>, atk |-> <<>>]
                                     ELSE [assets |-> FixAssets, assocs |-> FixAssocs, atk |-> FixAtk],
                           hist |-> hist]))
=============================================================================
