SPECIFICATION GenSpec
CONSTANTS
  ReAddOn <- ReAddEnv
  Lng <- LngDef
  NamePool <- NamePoolGen
  IdPool <- IdPoolDef
  FreshPool <- FreshPoolDef
  AutoNames <- AutoNamesDef
  DefVals <- DefValsDef
  StepPool <- StepPoolDef
  ExtrasPool = {1}
  MaxAssets = 3
  MaxAssocs = 2
  MaxAtk = 1
  MaxH = 8
  MaxMembers = 2
CONSTRAINT Bound
CONSTRAINT StopAtEnd
CONSTRAINT FewRejections
INVARIANT Emit
INVARIANT NeoRoundTrip
CHECK_DEADLOCK FALSE
