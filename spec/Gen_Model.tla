------------------------------ MODULE Gen_Model ------------------------------
(* Generation: ModelSM refined to the documented default-id / automatic-name   *)
(* policy, with a history variable; every behaviour of length Depth is printed *)
(* as one JSON line (action label + expected observation after every step).    *)
EXTENDS MC_Model, Json
VARIABLE hist
Depth == atoi(EnvOr("VERIF_DEPTH", "3"))
GenInit == Init /\ hist = <<>>
GenNext == NextP(TRUE) /\ hist' = Append(hist, [act |-> vAct', obs |-> Obs'])
GenSpec == GenInit /\ [][GenNext]_<<mvars, hist>>
MaxRej == atoi(EnvOr("VERIF_MAXREJ", "99"))
FewRej == Cardinality({i \in DOMAIN hist : hist[i].act.res = "exc"}) <= MaxRej
Bound == TLCGet("level") <= Depth
\* a behaviour also ends at a "collide" step (nothing specific can be predicted afterwards)
Ended == vAct.res = "collide"
\* C06 slice: assets are created first (NAssets of them), then constructions are attempted
NAssets == atoi(EnvOr("VERIF_NASSETS", "2"))
\* VERIF_BUILDOPS=assoc: after the assets exist, every history of association edits (add, shrink, remove) and asset removals
BuildOps == IF EnvOr("VERIF_BUILDOPS", "construct") = "assoc"
            THEN {"AddAsset", "AddAssociation", "RemoveFromAssoc", "RemoveAssociation", "RemoveAsset"}
            ELSE IF EnvOr("VERIF_BUILDOPS", "construct") = "atk"
            THEN {"AddAsset", "AddAttacker", "RemoveAttacker", "AddEntryPoint", "RemoveEntryPoint", "RemoveAsset"}
            ELSE {"AddAsset", "AddAssociation", "SetDefense"}
BuildFirst == \A i \in DOMAIN hist : /\ (i <= NAssets => hist[i].act.op = "AddAsset")
                                      /\ ((i > NAssets /\ hist[i].act.op = "AddAsset") => hist[i].act.h <= NAssets)   \* only re-adds later
                                      /\ hist[i].act.op \in BuildOps
                                      /\ (hist[i].act.op = "AddAsset" => hist[i].act.allowDup)
EmitOK == IF EnvOr("VERIF_BUILDFIRST", "0") = "1" THEN BuildFirst ELSE TRUE
\* with VERIF_GRAPH=1 the attack graph the specification assigns to the FINAL model of the behaviour is emitted as well
WithGraph == EnvOr("VERIF_GRAPH", "0") = "1"
FinalOrder == [k \in DOMAIN vAssets |-> vAssets[k].h]
Emit == ((TLCGet("level") = Depth + 1 \/ Ended) /\ FewRej /\ EmitOK) =>
          PrintT(ToJson([lang |-> EnvOr("VERIF_LANG", "LTiny"), hist |-> hist, abs |-> AbsLegacy, neo |-> [nodes |-> NeoNodes, rels |-> NeoRels],
                         final |-> vAssets,
                         exp |-> IF WithGraph /\ ~Ended THEN GraphExp(Lng, ModelVal, FinalOrder) ELSE [nodes |-> <<>>, lo |-> {}, hi |-> {}, feats |-> {}]]))
StopAtEnd == ~Ended
\* one representative history per distinct model state (for the checks that only need the states: C07, C18, C19)
GVw == <<vAssets, vAssocs, vAtk>>
\* (the initial state has level 1: a state reached by Depth calls has level Depth + 1)
EmitState == (hist # <<>> /\ ~Ended /\ FewRej /\ TLCGet("level") <= Depth + 1) =>
               PrintT(ToJson([lang |-> EnvOr("VERIF_LANG", "LTiny"), hist |-> hist, abs |-> AbsLegacy, neo |-> [nodes |-> NeoNodes, rels |-> NeoRels],
                              final |-> vAssets,
                              exp |-> IF EnvOr("VERIF_GRAPH", "0") = "1" THEN GraphExp(Lng, ModelVal, [k \in DOMAIN vAssets |-> vAssets[k].h])
                                      ELSE [nodes |-> <<>>, lo |-> {}, hi |-> {}, feats |-> {}]]))
FewRejections == FewRej
=============================================================================
