SPECIFICATION GenSpec
CONSTANTS
  ReAddOn <- ReAddEnv
  Lng <- LngDef
  NamePool = {"NONE"}
  IdPool <- IdPoolNone
  FreshPool = {}
  AutoNames = {}
  DefVals <- DefValsWide
  StepPool <- StepPoolDef
  ExtrasPool = {}
  MaxAssets <- MaxAssetsDef
  MaxAssocs = 0
  MaxAtk = 2
  MaxH = 12
  MaxMembers <- MaxMembersDef
CONSTRAINT Bound
CONSTRAINT StopAtEnd
CONSTRAINT FewRejections
CONSTRAINT BuildFirst
INVARIANT Emit
CHECK_DEADLOCK FALSE
