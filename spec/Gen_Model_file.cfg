SPECIFICATION GenSpec
CONSTANTS
  ReAddOn <- ReAddEnv
  Lng <- LngDef
  NamePool <- NamePoolFile
  IdPool <- IdPoolFile
  FreshPool = {}
  AutoNames = {}
  DefVals <- DefValsWide
  StepPool = {}
  ExtrasPool = {}
  MaxAssets <- MaxAssetsDef
  MaxAssocs <- MaxAssocsDef
  MaxAtk = 0
  MaxH = 12
  MaxMembers <- MaxMembersDef
CONSTRAINT Bound
CONSTRAINT StopAtEnd
CONSTRAINT FewRejections
CONSTRAINT BuildFirst
INVARIANT Emit
CHECK_DEADLOCK FALSE
