SPECIFICATION GenSpec
CONSTANTS
  ReAddOn <- ReAddEnv
  Lng <- LngDef
  NamePool <- NamePoolGen
  IdPool <- IdPoolDef
  FreshPool <- FreshPoolDef
  AutoNames <- AutoNamesDef
  DefVals <- DefValsDef
  StepPool <- StepPoolSim
  ExtrasPool = {1}
  MaxAssets = 4
  MaxAssocs = 4
  MaxAtk = 2
  MaxH = 40
  MaxMembers = 2
CONSTRAINT Bound
CONSTRAINT StopAtEnd
CONSTRAINT FewRejections
INVARIANT Emit
INVARIANT NeoRoundTrip
CHECK_DEADLOCK FALSE
