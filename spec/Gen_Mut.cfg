SPECIFICATION Spec
INVARIANT Emit
INVARIANT BaseAccepted
CHECK_DEADLOCK FALSE
