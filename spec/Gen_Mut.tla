------------------------------- MODULE Gen_Mut -------------------------------
(* C17 case generator: every single-token mutation (delete, insert a token of    *)
(* each kind of a pool, truncate, replace an identifier by a reserved word) of   *)
(* the token sequence of a base program (root file or an included file), with    *)
(* the verdict of the specification's recogniser of mal.g4 on the mutated file.  *)
EXTENDS Langs, Tok, Json, IOUtils, TLC
EnvOr(k, d) == IF k \in DOMAIN IOEnv THEN IOEnv[k] ELSE d
BaseName == EnvOr("VERIF_LANG", "LTiny")
LangByName(n) == Library[CHOOSE i \in DOMAIN Library : LibraryNames[i] = n]
Layout == EnvOr("VERIF_LAYOUT", "single")
BaseFiles == Files(LangByName(BaseName), Layout)
FileNo == atoi(EnvOr("VERIF_FILE", "1"))             \* which file of the layout is mutated
KindOf(t) == IF t.k = "NUM10" THEN "FLOAT" ELSE t.k
BaseKinds == [i \in DOMAIN BaseFiles[FileNo].toks |-> KindOf(BaseFiles[FileNo].toks[i])]
\* JUNK / JUNK2: a character that is no token of the language at all (";", "$"): a lexical error
InsertPool == {"ID", "LCURLY", "RCURLY", "DOT", "LEADSTO", "COMMA", "LSQUARE", "STAR", "OR", "HASH", "JUNK", "JUNK2"}
ReservedKinds == {"EXISTS", "C"}
N == Len(BaseKinds)
Muts == { [op |-> "delete", pos |-> p, kind |-> "-"] : p \in 1..N }
   \cup { [op |-> "insert", pos |-> p, kind |-> k] : p \in 1..(N + 1), k \in InsertPool }
   \cup { [op |-> "truncate", pos |-> p, kind |-> "-"] : p \in 1..(N - 1) }
   \cup { [op |-> "replace", pos |-> p, kind |-> k] : p \in {q \in 1..N : BaseKinds[q] = "ID"}, k \in ReservedKinds }
ApplyMut(s, m) ==
  CASE m.op = "delete"   -> SubSeq(s, 1, m.pos - 1) \o SubSeq(s, m.pos + 1, Len(s))
    [] m.op = "insert"   -> SubSeq(s, 1, m.pos - 1) \o <<m.kind>> \o SubSeq(s, m.pos, Len(s))
    [] m.op = "truncate" -> SubSeq(s, 1, m.pos)
    [] m.op = "replace"  -> [s EXCEPT ![m.pos] = m.kind]
    [] OTHER -> s
VARIABLE mu
CurToks == IF mu.op = "none" THEN BaseKinds ELSE ApplyMut(BaseKinds, mu)
R == INSTANCE Syntax WITH toks <- CurToks
Slices == atoi(EnvOr("VERIF_SLICES", "1"))
SliceNo == atoi(EnvOr("VERIF_SLICE", "0"))
Init == mu = [op |-> "none", pos |-> 0, kind |-> "-"]
Next == mu.op = "none" /\ \E m \in Muts : (m.pos % Slices = SliceNo) /\ mu' = m
Spec == Init /\ [][Next]_mu
Emit == PrintT(ToJson([lang |-> BaseName, layout |-> Layout, file |-> FileNo, mut |-> mu, accepts |-> R!AcceptsLikeParser,
                       files |-> BaseFiles]))
\* the printer and the grammar agree: the unmutated program is accepted
BaseAccepted == mu.op = "none" => R!AcceptsLikeParser
=============================================================================
