SPECIFICATION Spec
INVARIANT Emit
INVARIANT IncrTheorem
CHECK_DEADLOCK FALSE
