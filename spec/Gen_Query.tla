------------------------------ MODULE Gen_Query ------------------------------
(* C12 case generator: labelled graphs (arbitrary viability / necessity labels, *)
(* kinds, parent sets, defense statuses and suppress tags) with reached sets     *)
(* R \subseteq R2 of an attacker; expected traversability, attack surface,       *)
(* defense surface and enabled defenses; and the spec-level theorem that the     *)
(* incremental update equals recomputation.                                      *)
EXTENDS Apriori, Json, IOUtils
EnvOr(k, d) == IF k \in DOMAIN IOEnv THEN IOEnv[k] ELSE d
NN == atoi(EnvOr("VERIF_N", "2"))
NodeSet == 1..NN
KindSet == {"or", "and", "defense"}
Slices == atoi(EnvOr("VERIF_SLICES", "1"))
SliceNo == atoi(EnvOr("VERIF_SLICE", "0"))
VARIABLES phase, cs
Init == phase = 0 /\ cs = <<>>
Code(par, V, N) == LET RECURSIVE S(_) S(n) == IF n = 0 THEN 0 ELSE S(n - 1) * 11 + Cardinality(par[n]) * 4 + (IF V[n] THEN 1 ELSE 0) + (IF N[n] THEN 2 ELSE 0) IN S(NN)
DefVary == EnvOr("VERIF_DEFVARY", "1") = "1"
Choose == /\ phase = 0 /\ phase' = 1
          /\ \E par \in [NodeSet -> SUBSET NodeSet], V \in [NodeSet -> BOOLEAN], N \in [NodeSet -> BOOLEAN] :
               /\ Code(par, V, N) % Slices = SliceNo
               /\ \E kind \in [NodeSet -> KindSet], R2 \in SUBSET NodeSet, dup \in BOOLEAN :
                    \E R \in SUBSET R2, st \in [NodeSet -> (IF DefVary THEN {0, 10} ELSE {0})],
                       supp \in [NodeSet -> (IF DefVary THEN BOOLEAN ELSE {FALSE})] :
                      /\ \A n \in NodeSet : kind[n] # "defense" => (st[n] = 0 /\ ~supp[n])
                      /\ cs' = [kind |-> kind, par |-> par, V |-> V, N |-> N, R |-> R, R2 |-> R2, st |-> st, supp |-> supp, dup |-> dup]
Spec == Init /\ [][Choose]_<<phase, cs>>
G == [kind |-> cs.kind, par |-> cs.par]
Emit == phase = 1 =>
  PrintT(ToJson([n |-> NN, kind |-> cs.kind, par |-> cs.par, V |-> cs.V, N |-> cs.N, R |-> cs.R, R2 |-> cs.R2,
                 st |-> cs.st, supp |-> cs.supp, dup |-> cs.dup,
                 trav |-> [x \in NodeSet |-> Traversable(G, cs.V, cs.N, cs.R, x)],
                 surf |-> Surface(G, cs.V, cs.N, cs.R), surf2 |-> Surface(G, cs.V, cs.N, cs.R2),
                 dsurf |-> {x \in NodeSet : cs.kind[x] = "defense" /\ ~cs.supp[x] /\ cs.st[x] # 10},
                 denab |-> {x \in NodeSet : cs.kind[x] = "defense" /\ ~cs.supp[x] /\ cs.st[x] = 10}]))
\* incremental = recomputed
IncrTheorem == phase = 1 => SurfaceIncr(G, cs.V, cs.N, cs.R, cs.R2) = Surface(G, cs.V, cs.N, cs.R2)
=============================================================================
