SPECIFICATION Spec
INVARIANT EmitQ
INVARIANT IncrBig
INVARIANT Solution
CHECK_DEADLOCK FALSE
