----------------------------- MODULE Gen_QueryBig -----------------------------
(* C12, larger graphs: the graph families of Gen_AprioriBig with the labels    *)
(* the analysis gives them (lv, ln) and an attacker that has reached the       *)
(* sources and the first third of the steps (R), then four steps more (R2).    *)
(* Expected answers: Apriori!Traversable / Surface; the incremental update     *)
(* equals the recomputation (IncrBig, checked by TLC for every member).        *)
(* Only members whose first source is a defense (the query cases of Gen_Query  *)
(* range over {or, and, defense}).                                             *)
EXTENDS Gen_AprioriBig
QG == [kind |-> gr.kind, par |-> gr.par]
QR == {i \in 1..fam.len : i <= NSrc(fam.shape) \/ i <= fam.len \div 3}
QR2 == QR \cup {i \in 1..fam.len : i <= fam.len \div 3 + 4}
InScope == phase = 2 /\ fam.src = "defense"
EmitQ == InScope =>
  PrintT(ToJson([n |-> fam.len, kind |-> gr.kind, par |-> gr.par, V |-> lv, N |-> ln, R |-> QR, R2 |-> QR2,
                 st |-> gr.st, supp |-> [i \in 1..fam.len |-> FALSE], dup |-> FALSE, family |-> fam,
                 trav |-> [x \in 1..fam.len |-> Traversable(QG, lv, ln, QR, x)],
                 surf |-> Surface(QG, lv, ln, QR), surf2 |-> Surface(QG, lv, ln, QR2),
                 dsurf |-> {x \in 1..fam.len : gr.kind[x] = "defense" /\ gr.st[x] # 10},
                 denab |-> {x \in 1..fam.len : gr.kind[x] = "defense" /\ gr.st[x] = 10}]))
IncrBig == InScope => SurfaceIncr(QG, lv, ln, QR, QR2) = Surface(QG, lv, ln, QR2)
=============================================================================
