------------------------------ MODULE Gen_Syntax ------------------------------
(* C04 / C17 case generator: languages printed as token sequences (Tok) in      *)
(* several file layouts.  Besides the library languages: a "kitchen sink"        *)
(* language using every construct, a language with one step per step-expression *)
(* AST of bounded depth (every precedence boundary, both associativities), and   *)
(* one with every TTC expression AST of bounded depth.                           *)
EXTENDS Langs, Tok, Json, IOUtils, TLC
EnvOr(k, d) == IF k \in DOMAIN IOEnv THEN IOEnv[k] ELSE d

(* ---- step-expression ASTs (untyped: the compiler does not type-check) ------ *)
Small == EnvOr("VERIF_SMALLBASE", "0") = "1"
BaseE == IF Small THEN {F("fa"), Var("va")} ELSE {F("fa"), F("fb"), Var("va")}
RECURSIVE ExprsD(_)
ExprsD(d) == IF d = 0 THEN BaseE
             ELSE LET p == ExprsD(d - 1) IN
                  p \cup { Op(o, a, b) : o \in {"union", "intersection", "difference"}, a \in p, b \in p }
                    \cup { Col(a, b) : a \in p, b \in p }
                    \cup { Tr(a) : a \in p } \cup { Sb("Tx", a) : a \in p }
\* TTC ASTs
BaseT == IF Small THEN {Fn("Exponential", <<1>>), Num(25)} ELSE {Fn("Exponential", <<1>>), Fn("Enabled", <<>>), Num(25), Fn("Gamma", <<15, 20>>)}
RECURSIVE TtcD(_)
TtcD(d) == IF d = 0 THEN BaseT
           ELSE LET p == TtcD(d - 1) IN
                p \cup { TOp(o, a, b) : o \in {"addition", "subtraction", "multiplication", "division", "exponentiation"}, a \in p, b \in p }

Chunk == atoi(EnvOr("VERIF_CHUNK", "60"))
ExprSeq == SetToSeq(ExprsD(atoi(EnvOr("VERIF_EXPRDEPTH", "1"))))
TtcSeq == SetToSeq(TtcD(atoi(EnvOr("VERIF_TTCDEPTH", "1"))))
NChunksE == (Len(ExprSeq) + Chunk - 1) \div Chunk
NChunksT == (Len(TtcSeq) + Chunk - 1) \div Chunk
ChunkOf(s, c) == SubSeq(s, (c - 1) * Chunk + 1, IF c * Chunk < Len(s) THEN c * Chunk ELSE Len(s))
\* one step per expression: reaches  e.t  (override), requirement e for every third, extend for every fourth
ExprLang(c) ==
  LET es == ChunkOf(ExprSeq, c) IN
  [Language("org.verif.expr" \o ToString(c),
    << Asset("Xa", NONE, << LetV("va", F("fa")) >>,
         [i \in DOMAIN es |->
            S("s" \o ToString(i), IF i % 3 = 0 THEN "exist" ELSE "or", <<>>, NoRisk, NoT, <<>>,
              IF i % 3 = 0 THEN Req(<< es[i] >>) ELSE NoX,
              \* every fifth step has its attack step INSIDE parentheses: fa.(e.t) is a collect whose right operand is a collect
              IF i % 4 = 0 THEN Ext(<< Col(es[i], St("t")), St("u") >>)
              ELSE IF i % 5 = 1 THEN Ovr(<< Col(F("fa"), Col(es[i], St("t"))) >>)
              ELSE Ovr(<< Col(es[i], St("t")) >>))]),
       Asset("Tx", "Xa", << LetV("vb", es[1]) >>, << Or("t", NoR), Or("u", NoR) >>) >>,
    << AssocMany("Aa", "Xa", "fa", "fb", "Xa") >>) EXCEPT !.version = "1.0.0"]
TtcLang(c) ==
  LET ts == ChunkOf(TtcSeq, c) IN
  Language("org.verif.ttc" \o ToString(c),
    << Asset("Xa", NONE, <<>>, [i \in DOMAIN ts |-> S("s" \o ToString(i), IF i % 2 = 0 THEN "defense" ELSE "and", <<>>, NoRisk, ts[i], <<>>, NoX, NoR)]) >>,
    << AssocMany("Aa", "Xa", "fa", "fb", "Xa") >>)
\* every construct at least once
LSink ==
  [ id |-> "org.verif.sink", version |-> "2.3.4",
    categories |-> << [name |-> "System", meta |-> << Meta("user", "systems and so on"), Meta("developer", "dev text") >>],
                      [name |-> "People", meta |-> <<>>] >>,
    assets |-> <<
      [name |-> "Machine", category |-> "System", abstract |-> TRUE, super |-> NONE,
       meta |-> << Meta("user", "a machine: with colon, and comma") >>,
       vars |-> << LetV("allsw", Un(F("software"), Col(F("software"), Tr(F("deps"))))) >>,
       steps |-> << S("connect", "or", <<"hidden", "debug">>, Risk(TRUE, FALSE, FALSE), Expo(1), << Meta("user", "u"), Meta("mitre", "T1021") >>, NoX,
                      Ovr(<< St("access"), Col(Var("allsw"), St("compromise")) >>)),
                    S("access", "and", <<>>, Risk(TRUE, TRUE, TRUE), TOp("addition", Expo(1), TOp("multiplication", Bern(5), Num(20))), <<>>, NoX,
                      Ovr(<< Col(Sb("Library", Col(F("software"), Tr(F("deps")))), St("compromise")) >>)),
                    S("hardened", "defense", <<>>, NoRisk, Disabled, <<>>, NoX, Ovr(<< St("access") >>)),
                    S("hasAdmin", "exist", <<>>, NoRisk, NoT, <<>>, Req(<< F("admins"), Col(F("software"), F("owners")) >>), Ovr(<< St("access") >>)),
                    S("noAdmin", "notExist", <<>>, NoRisk, NoT, <<>>, Req(<< F("admins") >>), Ovr(<< St("access") >>)) >>],
      [name |-> "Server", category |-> "System", abstract |-> FALSE, super |-> "Machine", meta |-> <<>>, vars |-> <<>>,
       steps |-> << S("connect", "or", <<>>, NoRisk, NoT, <<>>, NoX, Ext(<< Col(In(F("admins"), Col(F("software"), F("owners"))), St("phish")) >>)),
                    S("access", "and", <<>>, NoRisk, NoT, <<>>, NoX, NoR) >>],
      [name |-> "Software", category |-> "System", abstract |-> FALSE, super |-> NONE, meta |-> <<>>, vars |-> <<>>,
       steps |-> << Or("compromise", Ovr(<< Col(Df(F("host"), Col(F("deps"), F("host"))), St("connect")) >>)) >>],
      [name |-> "Library", category |-> "System", abstract |-> FALSE, super |-> "Software", meta |-> <<>>, vars |-> <<>>, steps |-> <<>>],
      [name |-> "Person", category |-> "People", abstract |-> FALSE, super |-> NONE, meta |-> <<>>, vars |-> <<>>,
       steps |-> << S("phish", "or", <<>>, NoRisk, TOp("exponentiation", Num(20), Num(30)), <<>>, NoX, Ovr(<< Col(Tr(Col(F("machines"), F("admins"))), St("phish")) >>)) >>] >>,
    assocs |-> << [Assoc("Runs", "Machine", "host", 1, 1, 0, -1, "software", "Software") EXCEPT !.meta = << Meta("user", "runs") >>],
                  Assoc("Dep", "Software", "dependants", 0, -1, 0, -1, "deps", "Software"),
                  Assoc("Adm", "Person", "admins", 1, -1, 0, 1, "machines", "Machine"),
                  Assoc("Own", "Person", "owners", 2, 5, 0, 1, "owned", "Software") >> ]

\* an external language (e.g. coreLang's langspec.json converted to a record) handed in as JSON
HasExt == "VERIF_EXTLANG" \in DOMAIN IOEnv
ExtLang == JsonDeserialize(IOEnv.VERIF_EXTLANG)
VARIABLE cs
Init == cs = [kind |-> "none"]
Next == /\ cs.kind = "none"
        /\ \/ \E i \in DOMAIN Library, ly \in Layouts : cs' = [kind |-> "lib", lang |-> Library[i], layout |-> ly]
           \/ \E ly \in Layouts : cs' = [kind |-> "sink", lang |-> LSink, layout |-> ly]
           \/ \E c \in 1..NChunksE : cs' = [kind |-> "expr", lang |-> ExprLang(c), layout |-> "single"]
           \/ \E c \in 1..NChunksT : cs' = [kind |-> "ttc", lang |-> TtcLang(c), layout |-> "single"]
           \/ HasExt /\ \E ly \in {"single", "star", "chain"} : cs' = [kind |-> "ext", lang |-> ExtLang, layout |-> ly]
Spec == Init /\ [][Next]_cs
Emit == cs.kind # "none" => PrintT(ToJson([kind |-> cs.kind, lang |-> cs.lang, layout |-> cs.layout, files |-> Files(cs.lang, cs.layout)]))
=============================================================================
