------------------------------- MODULE GraphSM -------------------------------
(* The attack graph (maltoolbox.attackgraph: AttackGraph, AttackGraphNode,       *)
(* Attacker, the apriori analysers) as a state machine composed with ModelSM.     *)
(* Written LIKE THE IMPLEMENTATION: children and parents are two relations,       *)
(* attacker-side and node-side compromise are two relations, the lookup indexes   *)
(* and counters are explicit - so the consistency invariants (C09, C11, C13, C14) *)
(* are real statements about how each action maintains redundant structures.      *)
(*                                                                                *)
(* A graph slot is a record                                                        *)
(*  [ nodes : Seq([h, asset, step, kind, st, dist, ttc, tags, extras, id, V, N]), *)
(*    ch, pa : SUBSET (h \X h)        \* child relation, parent relation           *)
(*    byId : SUBSET (id \X h), byName : SUBSET (name \X h), nextId,               *)
(*    atk : Seq([h, id, name]), atkById : SUBSET (id \X h), nextAtk,              *)
(*    reached, entry : SUBSET (a \X h), compBy : SUBSET (h \X a) ]                *)
(* Pure operators compute the effect of each public call on a slot; the machine   *)
(* holds two slots ("main", "copy") so that deep copy and independence can be     *)
(* stated.  Object handles are chosen by the environment.                          *)
EXTENDS ModelSM, Apriori

CONSTANTS MaxNodes,      \* bound on nodes per slot
          ExtraKinds,    \* kinds of user-added (asset-less) nodes tried by AddNode
          GIdPool,       \* explicit ids tried by AddNode / AddAttacker (NoId = none)
          GMaxAtk,
          GOpsOn         \* names of the graph actions enabled in this configuration (slicing)
VARIABLES gS,            \* [Slots -> slot record]
          gAct,          \* label of the last graph action
          gNextH         \* next fresh graph-object handle (generation mode)
Slots == {"main", "copy"}
gvars == <<gS, gAct, gNextH>>
allvars == <<mvars, gvars>>

EmptySlot == [nodes |-> <<>>, ch |-> {}, pa |-> {}, byId |-> {}, byName |-> {}, nextId |-> 0,
              atk |-> <<>>, atkById |-> {}, nextAtk |-> 0, reached |-> {}, entry |-> {}, compBy |-> {},
              exists |-> FALSE, hasModel |-> FALSE, hasLang |-> FALSE]

NodeHs(s)  == {s.nodes[k].h : k \in DOMAIN s.nodes}
AtkHs(s)   == {s.atk[k].h : k \in DOMAIN s.atk}
NodeOf(s, h) == s.nodes[CHOOSE k \in DOMAIN s.nodes : s.nodes[k].h = h]
GAtkOf(s, a) == s.atk[CHOOSE k \in DOMAIN s.atk : s.atk[k].h = a]
NodeIds(s) == {s.nodes[k].id : k \in DOMAIN s.nodes}
GAtkIds(s) == {s.atk[k].id : k \in DOMAIN s.atk}
NameOf(n) == <<n.asset, n.step, IF n.asset = 0 THEN n.id ELSE 0>>     \* full name: asset:step, or id:step without asset
Children(s, h) == {p[2] : p \in {q \in s.ch : q[1] = h}}
Parents(s, h)  == {p[1] : p \in {q \in s.pa : q[2] = h}}
GKnown == UNION {NodeHs(gS[g]) \cup AtkHs(gS[g]) : g \in Slots}

(* ----------------------- TTC classes (C08) ------------------------------- *)
\* a probability distribution: a named function other than Enabled / Disabled (numbers and arithmetic are not explored)
TtcDist(t) == t.type = "function" /\ t.name \notin {"Enabled", "Disabled"}

(* ----------------------- generation (C01, C02) --------------------------- *)
ModelOrder == [k \in DOMAIN vAssets |-> vAssets[k].h]
GenNodes(nh0) ==
  LET ns == NodesOf(Lng, ModelVal, ModelOrder) IN
  [k \in DOMAIN ns |->
     [h |-> nh0 + k - 1, asset |-> ns[k].asset, step |-> ns[k].step, kind |-> ns[k].kind,
      st |-> IF ns[k].kind = "defense" THEN ns[k].dstat
             ELSE IF ns[k].kind \in {"exist", "notExist"} THEN (IF ns[k].estat = "T" THEN 10 ELSE 0) ELSE -1,
      dist |-> TtcDist(ns[k].ttc), ttc |-> 0, tags |-> Range(ns[k].tags), extras |-> 0,
      id |-> k - 1, V |-> TRUE, N |-> TRUE]]
HOf(nodes, x, st) == (CHOOSE k \in DOMAIN nodes : nodes[k].asset = x /\ nodes[k].step = st)
Generable == EdgesLo(Lng, ModelVal) = EdgesHi(Lng, ModelVal)
             /\ \A x \in LiveH : \A i \in DOMAIN Fold(Lng, TypeOfH(x)) :
                   ExistStatus(Lng, ModelVal, x, Fold(Lng, TypeOfH(x))[i]) # "U"
Generated(nh0) ==
  LET nodes == GenNodes(nh0)
      es == { <<nodes[HOf(nodes, e[1], e[2])].h, nodes[HOf(nodes, e[3], e[4])].h>> : e \in EdgesLo(Lng, ModelVal) }
  IN [EmptySlot EXCEPT !.nodes = nodes, !.ch = es, !.pa = es,
                       !.byId = {<<nodes[k].id, nodes[k].h>> : k \in DOMAIN nodes},
                       !.byName = {<<NameOf(nodes[k]), nodes[k].h>> : k \in DOMAIN nodes},
                       !.nextId = Len(nodes), !.exists = TRUE, !.hasModel = TRUE, !.hasLang = TRUE]

(* ----------------------- effects of the public calls --------------------- *)
DoAddNodeD(s, h, kind, newId, dist) ==
  LET n == [h |-> h, asset |-> 0, step |-> "x", kind |-> kind, st |-> IF kind = "defense" THEN 0 ELSE IF kind \in {"exist", "notExist"} THEN 10 ELSE -1,
            dist |-> dist, ttc |-> 0, tags |-> {}, extras |-> 0, id |-> newId, V |-> TRUE, N |-> TRUE] IN
  [s EXCEPT !.nodes = Append(@, n), !.byId = @ \cup {<<newId, h>>}, !.byName = @ \cup {<<NameOf(n), h>>},
            !.nextId = IF newId + 1 > @ THEN newId + 1 ELSE @]
DoAddNode(s, h, kind, newId) == DoAddNodeD(s, h, kind, newId, FALSE)
DoLink(s, p, c) == [s EXCEPT !.ch = @ \cup {<<p, c>>}, !.pa = @ \cup {<<p, c>>}]
\* removing a set of nodes: gone from the list, from both edge relations, from both indexes,
\* from every attacker's reached / entry lists and from the node-side relation
DoRemove(s, H) ==
  [s EXCEPT !.nodes = SelectSeq(@, LAMBDA n : n.h \notin H),
            !.ch = {p \in @ : p[1] \notin H /\ p[2] \notin H},
            !.pa = {p \in @ : p[1] \notin H /\ p[2] \notin H},
            !.byId = {p \in @ : p[2] \notin H}, !.byName = {p \in @ : p[2] \notin H},
            !.reached = {p \in @ : p[2] \notin H}, !.entry = {p \in @ : p[2] \notin H},
            !.compBy = {p \in @ : p[1] \notin H}]
Prunable(s) == {s.nodes[k].h : k \in {j \in DOMAIN s.nodes : s.nodes[j].kind \in {"or", "and"} /\ (~s.nodes[j].V \/ ~s.nodes[j].N)}}
DoAddAttacker(s, a, newId, name, E, R) ==
  [s EXCEPT !.atk = Append(@, [h |-> a, id |-> newId, name |-> name]), !.atkById = @ \cup {<<newId, a>>},
            !.nextAtk = IF newId + 1 > @ THEN newId + 1 ELSE @,
            !.reached = @ \cup {<<a, h>> : h \in R}, !.compBy = @ \cup {<<h, a>> : h \in R},
            !.entry = @ \cup {<<a, h>> : h \in E}]
DoRemoveAttacker(s, a) ==
  [s EXCEPT !.atk = SelectSeq(@, LAMBDA t : t.h # a), !.atkById = {p \in @ : p[2] # a},
            !.reached = {p \in @ : p[1] # a}, !.entry = {p \in @ : p[1] # a}, !.compBy = {p \in @ : p[2] # a}]
DoCompromise(s, a, h) == [s EXCEPT !.reached = @ \cup {<<a, h>>}, !.compBy = @ \cup {<<h, a>>}]
DoUndo(s, a, h) == [s EXCEPT !.reached = @ \ {<<a, h>>}, !.compBy = @ \ {<<h, a>>}]
\* the graph value the analysis sees
AprioriG(s) == [kind |-> [h \in NodeHs(s) |-> NodeOf(s, h).kind], par |-> [h \in NodeHs(s) |-> Parents(s, h)],
                st |-> [h \in NodeHs(s) |-> NodeOf(s, h).st], dist |-> [h \in NodeHs(s) |-> NodeOf(s, h).dist]]
DoAnalyse(s) == LET G == AprioriG(s) V == GFPV(G) N == GFPN(G) IN
  [s EXCEPT !.nodes = [k \in DOMAIN s.nodes |-> [s.nodes[k] EXCEPT !.V = V[s.nodes[k].h], !.N = N[s.nodes[k].h]]]]
\* attach: one graph attacker per model attacker; entry points = reached = the existing nodes named by the entry points
EntryNodes(s, t) == {s.nodes[k].h : k \in {j \in DOMAIN s.nodes :
                        \E i \in DOMAIN t.ep : t.ep[i].a = s.nodes[j].asset /\ s.nodes[j].step \in Range(t.ep[i].steps)}}
RECURSIVE AttachFrom(_,_,_)
AttachFrom(s, k, a0) ==
  IF k > Len(vAtk) THEN s
  ELSE LET E == EntryNodes(s, vAtk[k]) IN
       AttachFrom(DoAddAttacker(s, a0 + k - 1, s.nextAtk, vAtk[k].name, E, E), k + 1, a0)
\* deep copy: every node / attacker handle h becomes h + off; everything else equal
MapH(s, off) ==
  LET f(h) == h + off IN
  [s EXCEPT !.nodes = [k \in DOMAIN s.nodes |-> [s.nodes[k] EXCEPT !.h = f(@)]],
            !.ch = {<<f(p[1]), f(p[2])>> : p \in @}, !.pa = {<<f(p[1]), f(p[2])>> : p \in @},
            !.byId = {<<p[1], f(p[2])>> : p \in @}, !.byName = {<<p[1], f(p[2])>> : p \in @},
            !.atk = [k \in DOMAIN s.atk |-> [s.atk[k] EXCEPT !.h = f(@)]],
            !.atkById = {<<p[1], f(p[2])>> : p \in @},
            !.reached = {<<f(p[1]), f(p[2])>> : p \in @}, !.entry = {<<f(p[1]), f(p[2])>> : p \in @},
            !.compBy = {<<f(p[1]), f(p[2])>> : p \in @}]

\* a graph loaded without the model: nodes are not bound to assets (their full names derive from their ids)
Unbound(s) == LET ns == [k \in DOMAIN s.nodes |-> [s.nodes[k] EXCEPT !.asset = 0]] IN
              [s EXCEPT !.nodes = ns, !.byName = {<<NameOf(ns[k]), ns[k].h>> : k \in DOMAIN ns}, !.hasModel = FALSE]

\* a loaded graph is a fresh graph to which the stored nodes and attackers were added with their ids:
\* it has no language graph and its counters restart above the largest stored id
Reloaded(s) == [s EXCEPT !.hasLang = FALSE,
                         !.nextId = IF s.nodes = <<>> THEN 0 ELSE Max(NodeIds(s)) + 1,
                         !.nextAtk = IF s.atk = <<>> THEN 0 ELSE Max(GAtkIds(s)) + 1]

(* ------------------------------ actions ---------------------------------- *)
Set(g, s, label) == gS' = [gS EXCEPT ![g] = s] /\ gAct' = label /\ UNCHANGED mvars
BumpG(n) == gNextH' = gNextH + n
Generate(g) ==
  /\ vAssets # <<>> /\ Generable /\ ~gS[g].exists
  /\ Len(GenNodes(gNextH)) <= MaxNodes /\ Len(GenNodes(gNextH)) > 0
  /\ Set(g, Generated(gNextH), [op |-> "Generate", g |-> g, h0 |-> gNextH, res |-> "ok"])
  /\ BumpG(Len(GenNodes(gNextH)))
Regenerate(g) ==
  /\ gS[g].exists /\ g = "main" /\ gS[g].hasModel /\ gS[g].hasLang /\ vAssets # <<>> /\ Generable
  /\ Len(GenNodes(gNextH)) <= MaxNodes /\ Len(GenNodes(gNextH)) > 0
  /\ Set(g, Generated(gNextH), [op |-> "Regenerate", g |-> g, h0 |-> gNextH, res |-> "ok"])
  /\ BumpG(Len(GenNodes(gNextH)))
\* another AttackGraph is generated from the same model and kept by the caller: frame condition - the graphs in the
\* slots, their attackers and everything later done to them are unaffected (nothing is shared through the model)
Sibling ==
  /\ vAssets # <<>> /\ Generable /\ gS["main"].exists /\ gS["main"].hasModel /\ gAct.op # "Sibling"
  /\ gAct' = [op |-> "Sibling", g |-> "main", res |-> "ok"] /\ UNCHANGED <<mvars, gS, gNextH>>
\* dist: the added step carries a TTC probability distribution (only attack steps do)
AddNode(g, kind, reqId, dist) ==
  /\ gS[g].exists /\ Len(gS[g].nodes) < MaxNodes /\ (dist => kind \in {"or", "and"})
  /\ IF reqId # NoId /\ reqId \in NodeIds(gS[g])
     THEN Set(g, gS[g], [op |-> "AddNode", g |-> g, h |-> gNextH, kind |-> kind, reqId |-> reqId, res |-> "exc", dist |-> dist])
     ELSE Set(g, DoAddNodeD(gS[g], gNextH, kind, IF reqId # NoId THEN reqId ELSE gS[g].nextId, dist),
              [op |-> "AddNode", g |-> g, h |-> gNextH, kind |-> kind, reqId |-> reqId, res |-> "ok", dist |-> dist])
  /\ BumpG(1)
LinkNodes(g, p, c) ==
  /\ gS[g].exists /\ p \in NodeHs(gS[g]) /\ c \in NodeHs(gS[g]) /\ <<p, c>> \notin gS[g].ch
  /\ NodeOf(gS[g], p).asset = 0 \/ NodeOf(gS[g], c).asset = 0       \* edges of generated nodes come from the language
  /\ Set(g, DoLink(gS[g], p, c), [op |-> "Link", g |-> g, p |-> p, c |-> c, res |-> "ok"])
  /\ UNCHANGED gNextH
RemoveNode(g, h) ==
  /\ gS[g].exists /\ h \in NodeHs(gS[g])
  /\ Set(g, DoRemove(gS[g], {h}), [op |-> "RemoveNode", g |-> g, h |-> h, res |-> "ok"])
  /\ UNCHANGED gNextH
Prune(g) ==
  /\ gS[g].exists
  /\ Set(g, DoRemove(gS[g], Prunable(gS[g])), [op |-> "Prune", g |-> g, res |-> "ok"])
  /\ UNCHANGED gNextH
Analyse(g) ==
  /\ gS[g].exists /\ \A k \in DOMAIN gS[g].nodes : gS[g].nodes[k].V /\ gS[g].nodes[k].N    \* labels at their defaults
  /\ Set(g, DoAnalyse(gS[g]), [op |-> "Analyse", g |-> g, res |-> "ok"])
  /\ UNCHANGED gNextH
AttachAttackers(g) ==
  /\ gS[g].exists /\ g = "main" /\ gS[g].hasModel /\ gS[g].atk = <<>> /\ vAtk # <<>> /\ Len(vAtk) <= GMaxAtk
  /\ \A k \in DOMAIN vAtk : vAtk[k].name # NONE
  /\ Set(g, AttachFrom(gS[g], 1, gNextH), [op |-> "AttachAttackers", g |-> g, a0 |-> gNextH, res |-> "ok"])
  /\ BumpG(Len(vAtk))
\* ws: the caller also names steps: the first node as entry point, the first and the last node as reached steps (the
\* replay lists a reached step twice: compromising twice changes nothing)
AddGAttacker(g, reqId, ws) ==
  /\ gS[g].exists /\ Len(gS[g].atk) < GMaxAtk /\ (ws => gS[g].nodes # <<>>)
  /\ LET E == IF ws THEN {gS[g].nodes[1].h} ELSE {}
         R == IF ws THEN {gS[g].nodes[1].h, gS[g].nodes[Len(gS[g].nodes)].h} ELSE {}
         \* names: "gb" with an explicit id; otherwise "ga", except that the SECOND attacker of a graph is called "ga:2" - the
         \* text a file would use to tell a third attacker named "ga" with id 2 from the first one
         nm == IF reqId # NoId THEN "gb" ELSE IF Len(gS[g].atk) = 1 THEN "ga:2" ELSE "ga" IN
     IF reqId # NoId /\ reqId \in GAtkIds(gS[g])
     THEN Set(g, gS[g], [op |-> "AddGAttacker", g |-> g, h |-> gNextH, reqId |-> reqId, res |-> "exc", e |-> E, r |-> R, name |-> nm])
     ELSE Set(g, DoAddAttacker(gS[g], gNextH, IF reqId # NoId THEN reqId ELSE gS[g].nextAtk, nm, E, R),
              [op |-> "AddGAttacker", g |-> g, h |-> gNextH, reqId |-> reqId, res |-> "ok", e |-> E, r |-> R, name |-> nm])
  /\ BumpG(1)
RemoveGAttacker(g, a) ==
  /\ gS[g].exists /\ a \in AtkHs(gS[g])
  /\ Set(g, DoRemoveAttacker(gS[g], a), [op |-> "RemoveGAttacker", g |-> g, h |-> a, res |-> "ok"])
  /\ UNCHANGED gNextH
Compromise(g, a, h, side) ==
  /\ gS[g].exists /\ a \in AtkHs(gS[g]) /\ h \in NodeHs(gS[g])
  /\ Set(g, DoCompromise(gS[g], a, h), [op |-> "Compromise", g |-> g, a |-> a, h |-> h, side |-> side, res |-> "ok"])
  /\ UNCHANGED gNextH
Undo(g, a, h, side) ==
  /\ gS[g].exists /\ a \in AtkHs(gS[g]) /\ h \in NodeHs(gS[g])
  /\ Set(g, DoUndo(gS[g], a, h), [op |-> "Undo", g |-> g, a |-> a, h |-> h, side |-> side, res |-> "ok"])
  /\ UNCHANGED gNextH
CopyOffset == 500
DeepCopy ==
  /\ gS["main"].exists /\ ~gS["copy"].exists
  /\ gS' = [gS EXCEPT !["copy"] = MapH(gS["main"], CopyOffset)]
  /\ gAct' = [op |-> "DeepCopy", g |-> "main", off |-> CopyOffset, res |-> "ok"]
  /\ UNCHANGED <<mvars, gNextH>>
\* save + load: the loaded graph (fresh objects, handles h + off) replaces the slot; same abstract content
SaveLoad(g, fmt, withModel) ==
  /\ gS[g].exists /\ g = "main"
  \* (nodes without an asset - added by hand, or loaded without the model - are named by their id, which the file keeps)
  /\ gS' = [gS EXCEPT ![g] = Reloaded(IF withModel THEN MapH(gS[g], gNextH) ELSE Unbound(MapH(gS[g], gNextH)))]
  /\ gAct' = [op |-> "SaveLoad", g |-> g, fmt |-> fmt, withModel |-> withModel, off |-> gNextH, res |-> "ok"]
  \* the loaded objects get the handles h + gNextH (all below 2 * gNextH): the next fresh handle must lie beyond them
  /\ gNextH' = 2 * gNextH /\ UNCHANGED mvars
\* in-place mutation of per-node data (C14 independence)
TouchKinds == {"tags", "extras", "ttc", "label"}       \* slices may restrict the in-place mutations explored
Touch(g, h, what) ==
  /\ gS[g].exists /\ h \in NodeHs(gS[g])
  /\ LET k == CHOOSE j \in DOMAIN gS[g].nodes : gS[g].nodes[j].h = h IN
     Set(g, [gS[g] EXCEPT !.nodes[k] = CASE what = "tags"   -> [@ EXCEPT !.tags = @ \cup {"touched"}]
                                         [] what = "extras" -> [@ EXCEPT !.extras = IF @ = 0 THEN 7 ELSE @ + 1]   \* first: a nested container is created; later: it is mutated in place
                                         [] what = "ttc"    -> [@ EXCEPT !.ttc = 7]
                                         [] what = "label"  -> [@ EXCEPT !.V = FALSE]],
         [op |-> "Touch", g |-> g, h |-> h, what |-> what, res |-> "ok"])
  /\ UNCHANGED gNextH

GInit == Init /\ gS = [g \in Slots |-> EmptySlot] /\ gAct = [op |-> "Init", res |-> "ok"] /\ gNextH = 1001
On(op) == op \in GOpsOn
GraphNext ==
  \/ On("Generate") /\ \E g \in {"main"} : Generate(g)
  \/ On("Regenerate") /\ Regenerate("main")
  \/ On("Sibling") /\ Sibling
  \/ On("AddNode") /\ \E g \in Slots, k \in ExtraKinds, i \in GIdPool, ds \in BOOLEAN : AddNode(g, k, i, ds)
  \/ On("Link") /\ \E g \in Slots : \E p, c \in NodeHs(gS[g]) : LinkNodes(g, p, c)
  \/ On("RemoveNode") /\ \E g \in Slots : \E h \in NodeHs(gS[g]) : RemoveNode(g, h)
  \/ On("Prune") /\ \E g \in Slots : Prune(g)
  \/ On("Analyse") /\ \E g \in Slots : Analyse(g)
  \/ On("AttachAttackers") /\ AttachAttackers("main")
  \/ On("AddGAttacker") /\ \E g \in Slots, i \in GIdPool, ws \in BOOLEAN : AddGAttacker(g, i, ws)
  \/ On("RemoveGAttacker") /\ \E g \in Slots : \E a \in AtkHs(gS[g]) : RemoveGAttacker(g, a)
  \/ On("Compromise") /\ \E g \in Slots : \E a \in AtkHs(gS[g]), h \in NodeHs(gS[g]), sd \in {"attacker", "node"} : Compromise(g, a, h, sd)
  \/ On("Undo") /\ \E g \in Slots : \E a \in AtkHs(gS[g]), h \in NodeHs(gS[g]), sd \in {"attacker", "node"} : Undo(g, a, h, sd)
  \/ On("DeepCopy") /\ DeepCopy
  \/ On("SaveLoad") /\ \E fmt \in {"json", "yml"}, wm \in BOOLEAN : SaveLoad("main", fmt, wm)
  \/ On("Touch") /\ \E g \in Slots : \E h \in NodeHs(gS[g]), w \in TouchKinds : Touch(g, h, w)
ModelStep(UsePolicy) == NextP(UsePolicy) /\ UNCHANGED gvars /\ ~gS["main"].exists      \* the model is built first
GNext == GraphNext \/ ModelStep(TRUE)
GSpecFull == GInit /\ [][GNext]_allvars

(* ------------------------- invariants (C09 / C11) ------------------------ *)
SlotOK(s) ==
  /\ s.ch = s.pa                                                            \* Mirror
  /\ \A p \in s.ch \cup s.pa : p[1] \in NodeHs(s) /\ p[2] \in NodeHs(s)     \* RefsInside (edges)
  /\ \A p \in s.reached \cup s.entry : p[1] \in AtkHs(s) /\ p[2] \in NodeHs(s)
  /\ \A p \in s.compBy : p[1] \in NodeHs(s) /\ p[2] \in AtkHs(s)
  /\ s.byId = {<<s.nodes[k].id, s.nodes[k].h>> : k \in DOMAIN s.nodes}      \* IdIndexExact
  /\ s.byName = {<<NameOf(s.nodes[k]), s.nodes[k].h>> : k \in DOMAIN s.nodes} \* NameIndexExact
  /\ \A j, k \in DOMAIN s.nodes : j # k => s.nodes[j].id # s.nodes[k].id /\ s.nodes[j].h # s.nodes[k].h   \* IdsUnique
  /\ s.atkById = {<<s.atk[k].id, s.atk[k].h>> : k \in DOMAIN s.atk}         \* AttackerIndexExact
  /\ \A j, k \in DOMAIN s.atk : j # k => s.atk[j].id # s.atk[k].id
  /\ s.compBy = {<<p[2], p[1]>> : p \in s.reached}                          \* CompromiseMirror (C11)
  /\ \A k \in DOMAIN s.nodes : s.nodes[k].id < s.nextId
  /\ \A k \in DOMAIN s.atk : s.atk[k].id < s.nextAtk
Consistent == \A g \in Slots : SlotOK(gS[g])
\* the two slots never share an object
SlotsDisjoint == (NodeHs(gS["main"]) \cup AtkHs(gS["main"])) \cap (NodeHs(gS["copy"]) \cup AtkHs(gS["copy"])) = {}
\* C14: an action on one slot leaves the other slot unchanged; a copy equals the original up to handle renaming
SlotsIndependent == [][\A g \in Slots : (gAct'.op # "DeepCopy" /\ "g" \in DOMAIN gAct' /\ gAct'.g # g) => gS'[g] = gS[g]]_allvars
CopyEqual == [][gAct'.op = "DeepCopy" => gS'["copy"] = MapH(gS'["main"], CopyOffset)]_allvars
\* C13: after pruning no prunable node remains, every other node remains unchanged
PruneExact == [][gAct'.op = "Prune" =>
                   LET g == gAct'.g IN
                   /\ Prunable(gS'[g]) = {}
                   /\ gS'[g].nodes = SelectSeq(gS[g].nodes, LAMBDA n : n.h \notin Prunable(gS[g]))]_allvars
\* C11: compromising twice / undoing something not compromised changes nothing
Idempotent == [][(gAct'.op = "Compromise" /\ <<gAct'.a, gAct'.h>> \in gS[gAct'.g].reached) \/
                 (gAct'.op = "Undo" /\ <<gAct'.a, gAct'.h>> \notin gS[gAct'.g].reached)
                   => gS' = gS]_allvars
\* C11: removing an attacker leaves no node compromised by it
RemoveAttackerClears == [][gAct'.op = "RemoveGAttacker" =>
                              \A p \in gS'[gAct'.g].compBy \cup {<<q[2], q[1]>> : q \in gS'[gAct'.g].reached \cup gS'[gAct'.g].entry} : p[2] # gAct'.h]_allvars
\* C09: a regenerated graph equals a freshly generated one
RegenerateIsFresh == [][gAct'.op = "Regenerate" => gS'["main"] = Generated(gAct'.h0)]_allvars

(* ------------------------- observation ----------------------------------- *)
SlotObs(s) ==
  [ exists |-> s.exists,
    nodes |-> { [h |-> s.nodes[k].h, asset |-> s.nodes[k].asset, step |-> s.nodes[k].step, kind |-> s.nodes[k].kind,
                 V |-> s.nodes[k].V, N |-> s.nodes[k].N, tags |-> s.nodes[k].tags, extras |-> s.nodes[k].extras,
                 ttc |-> s.nodes[k].ttc] : k \in DOMAIN s.nodes },
    ch |-> s.ch, pa |-> s.pa,
    atk |-> { [h |-> s.atk[k].h, name |-> s.atk[k].name, id |-> s.atk[k].id] : k \in DOMAIN s.atk },
    reached |-> s.reached, entry |-> s.entry, compBy |-> s.compBy ]
GObs == [main |-> SlotObs(gS["main"]), copy |-> SlotObs(gS["copy"])]
GView == <<vAssets, vAssocs, vAtk, gS>>
=============================================================================
