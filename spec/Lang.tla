-------------------------------- MODULE Lang --------------------------------
(* MAL languages as values, in the langspec's own layout, and their STATIC      *)
(* semantics: inheritance, step folding (C03), typing of step expressions,      *)
(* well-formedness (what malc accepts), defenses and class names (C06).         *)
(*                                                                              *)
(*  L = [ id, version,                                                          *)
(*        categories : Seq([name, meta]),                                       *)
(*        assets : Seq([name, category, abstract, super, meta,                  *)
(*                      vars  : Seq([name, expr]),                              *)
(*                      steps : Seq([name, kind, tags, risk, ttc, meta,         *)
(*                                   requires : [present, exprs],               *)
(*                                   reaches  : [present, overrides, exprs]])]),*)
(*        assocs : Seq([name, lt, lf, lmin, lmax, rt, rf, rmin, rmax, meta]) ]  *)
(*  kind \in {"or","and","defense","exist","notExist"}; lmax = -1 means "*";    *)
(*  meta = Seq([k, v]); super = NONE when the asset has no parent.              *)
EXTENDS Core

(* ------------------------------------------------------------------------- *)
(* constructors (used by the language library and by the generators)         *)
(* ------------------------------------------------------------------------- *)
F(n)        == [type |-> "field", name |-> n]
St(n)       == [type |-> "attackStep", name |-> n]
Var(n)      == [type |-> "variable", name |-> n]
Col(a, b)   == [type |-> "collect", lhs |-> a, rhs |-> b]
Op(o, a, b) == [type |-> o, lhs |-> a, rhs |-> b]
Un(a, b)    == Op("union", a, b)
In(a, b)    == Op("intersection", a, b)
Df(a, b)    == Op("difference", a, b)
Tr(a)       == [type |-> "transitive", stepExpression |-> a]
Sb(t, a)    == [type |-> "subType", subType |-> t, stepExpression |-> a]

NoT         == [type |-> "none"]
Fn(n, args) == [type |-> "function", name |-> n, arguments |-> args]   \* arguments in tenths
Num(v10)    == [type |-> "number", value10 |-> v10]
TOp(o, a, b) == [type |-> o, lhs |-> a, rhs |-> b]   \* addition subtraction multiplication division exponentiation

NoRisk      == [present |-> FALSE, c |-> FALSE, i |-> FALSE, a |-> FALSE]
Risk(c, i, a) == [present |-> TRUE, c |-> c, i |-> i, a |-> a]
NoX         == [present |-> FALSE, exprs |-> <<>>]
Req(es)     == [present |-> TRUE, exprs |-> es]
NoR         == [present |-> FALSE, overrides |-> FALSE, exprs |-> <<>>]
Ovr(es)     == [present |-> TRUE, overrides |-> TRUE, exprs |-> es]    \*  ->
Ext(es)     == [present |-> TRUE, overrides |-> FALSE, exprs |-> es]   \*  +>
Meta(k, v)  == [k |-> k, v |-> v]

S(n, k, tags, risk, ttc, meta, req, rch) ==
  [name |-> n, kind |-> k, tags |-> tags, risk |-> risk, ttc |-> ttc, meta |-> meta,
   requires |-> req, reaches |-> rch]
\* short forms
Or(n, rch)   == S(n, "or", <<>>, NoRisk, NoT, <<>>, NoX, rch)
And(n, rch)  == S(n, "and", <<>>, NoRisk, NoT, <<>>, NoX, rch)
Def(n, ttc, rch) == S(n, "defense", <<>>, NoRisk, ttc, <<>>, NoX, rch)
Ex(n, req, rch)  == S(n, "exist", <<>>, NoRisk, NoT, <<>>, Req(<<req>>), rch)
NEx(n, req, rch) == S(n, "notExist", <<>>, NoRisk, NoT, <<>>, Req(<<req>>), rch)

Asset(n, sup, vars, steps) ==
  [name |-> n, category |-> "Cat", abstract |-> FALSE, super |-> sup, meta |-> <<>>,
   vars |-> vars, steps |-> steps]
AbsAsset(n, sup, vars, steps) == [Asset(n, sup, vars, steps) EXCEPT !.abstract = TRUE]
LetV(n, e) == [name |-> n, expr |-> e]
\* lmax/rmax: -1 = unbounded
Assoc(n, lt, lf, lmin, lmax, rmin, rmax, rf, rt) ==
  [name |-> n, lt |-> lt, lf |-> lf, lmin |-> lmin, lmax |-> lmax,
   rt |-> rt, rf |-> rf, rmin |-> rmin, rmax |-> rmax, meta |-> <<>>]
AssocMany(n, lt, lf, rf, rt) == Assoc(n, lt, lf, 0, -1, 0, -1, rf, rt)
Language(id, assets, assocs) ==
  [id |-> id, version |-> "0.0.1", categories |-> <<[name |-> "Cat", meta |-> <<>>]>>,
   assets |-> assets, assocs |-> assocs]

(* ------------------------------------------------------------------------- *)
(* inheritance                                                               *)
(* ------------------------------------------------------------------------- *)
AssetNames(L) == {L.assets[i].name : i \in DOMAIN L.assets}
AssetRec(L, T) == L.assets[CHOOSE i \in DOMAIN L.assets : L.assets[i].name = T]
SuperOf(L, T) == AssetRec(L, T).super

\* ancestors, reflexive; guarded against cyclic "extends" (ill-formed input) by a fuel counter
RECURSIVE AncF(_,_,_)
AncF(L, T, fuel) ==
  IF fuel = 0 \/ T \notin AssetNames(L) THEN {}
  ELSE IF SuperOf(L, T) = NONE THEN {T} ELSE {T} \cup AncF(L, SuperOf(L, T), fuel - 1)
Anc(L, T) == AncF(L, T, Len(L.assets))
IsSub(L, T, U) == U \in Anc(L, T)                 \* reflexive-transitive "extends"
Subs(L, T) == {sb \in AssetNames(L) : IsSub(L, sb, T)}
Common(L, T, U) == Anc(L, T) \cap Anc(L, U)
LCA(L, T, U) == IF T = NONE \/ U = NONE \/ Common(L, T, U) = {} THEN NONE
                ELSE CHOOSE c \in Common(L, T, U) : \A d \in Common(L, T, U) : IsSub(L, c, d)
\* ancestor chain root first, T last
RECURSIVE ChainF(_,_,_)
ChainF(L, T, fuel) == IF fuel = 0 THEN <<>>
                      ELSE IF SuperOf(L, T) = NONE THEN <<T>> ELSE Append(ChainF(L, SuperOf(L, T), fuel - 1), T)
Chain(L, T) == ChainF(L, T, Len(L.assets))
AcyclicInheritance(L) ==
  \A i \in DOMAIN L.assets :
     LET a == L.assets[i] IN
       /\ (a.super # NONE => a.super \in AssetNames(L))
       /\ Len(Chain(L, a.name)) <= Len(L.assets)
       /\ (Len(Chain(L, a.name)) > 0 => SuperOf(L, Chain(L, a.name)[1]) = NONE)

(* ------------------------------------------------------------------------- *)
(* C03: the steps a type exposes = declarations folded from the root down    *)
(* ------------------------------------------------------------------------- *)
IdxOfName(s, n) == IF \E i \in DOMAIN s : s[i].name = n
                   THEN CHOOSE i \in DOMAIN s : s[i].name = n /\ \A j \in 1..(i-1) : s[j].name # n
                   ELSE 0
FoldOne(acc, d) ==
  LET i == IdxOfName(acc, d.name) IN
  IF i = 0 THEN Append(acc, d)                               \* new name: exposed as declared
  ELSE IF ~d.reaches.present THEN acc                        \* no reaches clause: inherited definition untouched
  ELSE IF d.reaches.overrides THEN [acc EXCEPT ![i] = d]     \* '->' replaces the inherited definition
  ELSE [acc EXCEPT ![i].reaches =                            \* '+>' keeps it and appends its own expressions
          IF ~acc[i].reaches.present
          THEN [present |-> TRUE, overrides |-> FALSE, exprs |-> d.reaches.exprs]
          ELSE [acc[i].reaches EXCEPT !.exprs = @ \o d.reaches.exprs]]
RECURSIVE FoldSeq(_,_)
FoldSeq(acc, ds) == IF ds = <<>> THEN acc ELSE FoldSeq(FoldOne(acc, Head(ds)), Tail(ds))
RECURSIVE FoldChain(_,_,_)
FoldChain(L, ch, acc) == IF ch = <<>> THEN acc
                         ELSE FoldChain(L, Tail(ch), FoldSeq(acc, AssetRec(L, Head(ch)).steps))
Fold(L, T) == FoldChain(L, Chain(L, T), <<>>)
FoldedStep(L, T, s) == Fold(L, T)[IdxOfName(Fold(L, T), s)]
StepNames(L, T) == {Fold(L, T)[i].name : i \in DOMAIN Fold(L, T)}
\* the same fold computed on the language restricted to T's ancestors (C03: descendants and siblings are irrelevant)
Restrict(L, T) == [L EXCEPT !.assets = SelectSeq(L.assets, LAMBDA a : a.name \in Anc(L, T))]
FoldIgnoresOthers(L) == \A T \in AssetNames(L) : Fold(L, T) = Fold(Restrict(L, T), T)

(* ------------------------------------------------------------------------- *)
(* fields, variables, static typing                                          *)
(* ------------------------------------------------------------------------- *)
\* <<field, target type, association index, side of the field>>  navigable from T
FieldsOf(L, T) ==
     { <<L.assocs[i].rf, L.assocs[i].rt, i, "r">> : i \in {j \in DOMAIN L.assocs : IsSub(L, T, L.assocs[j].lt)} }
\cup { <<L.assocs[i].lf, L.assocs[i].lt, i, "l">> : i \in {j \in DOMAIN L.assocs : IsSub(L, T, L.assocs[j].rt)} }
FieldNamesOf(L, T) == {p[1] : p \in FieldsOf(L, T)}
FieldTarget(L, T, f) == IF \E p \in FieldsOf(L, T) : p[1] = f
                        THEN (CHOOSE p \in FieldsOf(L, T) : p[1] = f)[2] ELSE NONE
RECURSIVE VarDefF(_,_,_,_)
VarDefF(L, T, v, fuel) ==
  IF fuel = 0 \/ T \notin AssetNames(L) THEN [type |-> "none"] ELSE
  LET a == AssetRec(L, T) IN
  IF \E i \in DOMAIN a.vars : a.vars[i].name = v
  THEN a.vars[CHOOSE i \in DOMAIN a.vars : a.vars[i].name = v].expr
  ELSE IF a.super = NONE THEN [type |-> "none"] ELSE VarDefF(L, a.super, v, fuel - 1)
VarDef(L, T, v) == VarDefF(L, T, v, Len(L.assets))
VarsOf(L, T) == UNION { {AssetRec(L, U).vars[i].name : i \in DOMAIN AssetRec(L, U).vars} : U \in Anc(L, T) }

\* static target type of a step expression evaluated on type T; NONE if ill-typed.
\* fuel bounds variable expansion (a variable defined through itself is ill-formed)
RECURSIVE TypeOfF(_,_,_,_)
TypeOfF(L, e, T, fuel) ==
  IF T = NONE \/ fuel = 0 THEN NONE ELSE
  CASE e.type = "field"      -> FieldTarget(L, T, e.name)
    [] e.type = "attackStep" -> T
    [] e.type = "collect"    -> TypeOfF(L, e.rhs, TypeOfF(L, e.lhs, T, fuel), fuel)
    [] e.type \in {"union", "intersection", "difference"} ->
                                LCA(L, TypeOfF(L, e.lhs, T, fuel), TypeOfF(L, e.rhs, T, fuel))
    \* malc: the operand of '*' is applied again to what it reaches, so the source type must itself be of the
    \* operand's target type; the closure then has that type (it covers the start asset as well)
    [] e.type = "transitive" -> LET t == TypeOfF(L, e.stepExpression, T, fuel) IN
                                IF t = NONE \/ ~IsSub(L, T, t) \/ TypeOfF(L, e.stepExpression, t, fuel) = NONE THEN NONE ELSE t
    [] e.type = "subType"    -> LET t == TypeOfF(L, e.stepExpression, T, fuel) IN
                                IF t # NONE /\ e.subType \in AssetNames(L) /\ IsSub(L, e.subType, t)
                                THEN e.subType ELSE NONE
    [] e.type = "variable"   -> LET d == VarDef(L, T, e.name) IN
                                IF d.type = "none" THEN NONE ELSE TypeOfF(L, d, T, fuel - 1)
    [] OTHER -> NONE
TypeOf(L, e, T) == TypeOfF(L, e, T, 8)

\* a reaches/requires expression: navigation part and (for reaches) the step it names
IsReach(e) == e.type = "attackStep" \/ (e.type = "collect" /\ e.rhs.type = "attackStep")
ReachNav(e)  == IF e.type = "attackStep" THEN NONE ELSE e.lhs         \* NONE: the step is on the same asset
ReachStep(e) == IF e.type = "attackStep" THEN e.name ELSE e.rhs.name
ReachTargetType(L, e, T) == IF e.type = "attackStep" THEN T ELSE TypeOf(L, e.lhs, T)

(* ------------------------------------------------------------------------- *)
(* well-formedness: what the reference compiler (malc) accepts               *)
(* ------------------------------------------------------------------------- *)
Reserved == {"E", "C", "I", "A"}
Kinds == {"or", "and", "defense", "exist", "notExist"}
UniqueNamesIn(s) == \A p, q \in DOMAIN s : p # q => s[p].name # s[q].name
WellFormed(L) ==
  /\ UniqueNamesIn(L.assets)
  /\ AcyclicInheritance(L)
  /\ \A i \in DOMAIN L.assocs :
        /\ L.assocs[i].lt \in AssetNames(L) /\ L.assocs[i].rt \in AssetNames(L)
        /\ L.assocs[i].lf # L.assocs[i].rf      \* the toolbox's data model keys an association by its two field names
  /\ \A T \in AssetNames(L) :                       \* a field name means one thing per type
        \A p, q \in FieldsOf(L, T) : p[1] = q[1] => p = q
  /\ \A T \in AssetNames(L) :
        LET a == AssetRec(L, T) IN
        /\ UniqueNamesIn(a.steps) /\ UniqueNamesIn(a.vars)
        /\ \A i \in DOMAIN a.vars :                 \* no shadowing of an ancestor's variable
              /\ (a.super # NONE => VarDef(L, a.super, a.vars[i].name).type = "none")
              /\ TypeOf(L, a.vars[i].expr, T) # NONE
        /\ \A i \in DOMAIN a.steps :
              LET s == a.steps[i] IN
              /\ s.kind \in Kinds
              /\ (a.super # NONE /\ s.name \in StepNames(L, a.super)
                    => FoldedStep(L, a.super, s.name).kind = s.kind)
              /\ (s.reaches.present /\ ~s.reaches.overrides => a.super # NONE /\ s.name \in StepNames(L, a.super))
              /\ (s.kind \in {"exist", "notExist"} <=> s.requires.present)
              /\ (s.requires.present => Len(s.requires.exprs) >= 1)
              /\ \A k \in DOMAIN s.requires.exprs : TypeOf(L, s.requires.exprs[k], T) # NONE
              /\ \A k \in DOMAIN s.reaches.exprs :
                    LET e == s.reaches.exprs[k] IN
                    /\ IsReach(e)
                    /\ ReachTargetType(L, e, T) # NONE
                    /\ ReachStep(e) \in StepNames(L, ReachTargetType(L, e, T))
  /\ \A T \in AssetNames(L) : T \notin Reserved

(* ------------------------------------------------------------------------- *)
(* C06: what the generated classes must offer                                 *)
(* ------------------------------------------------------------------------- *)
Defenses(L, T) == {Fold(L, T)[i].name : i \in {j \in DOMAIN Fold(L, T) : Fold(L, T)[j].kind = "defense"}}
\* default value (in tenths) of defense d on a fresh instance of T: 10 iff its TTC is Enabled
DefenseDefault(L, T, d) ==
  LET s == FoldedStep(L, T, d) IN IF s.ttc.type = "function" /\ s.ttc.name = "Enabled" THEN 10 ELSE 0
NameShared(L, i) == \E j \in DOMAIN L.assocs : j # i /\ L.assocs[j].name = L.assocs[i].name
ClassName(L, i) == IF NameShared(L, i)
                   THEN [base |-> L.assocs[i].name, sub |-> TRUE, lt |-> L.assocs[i].lt, rt |-> L.assocs[i].rt]
                   ELSE [base |-> L.assocs[i].name, sub |-> FALSE, lt |-> L.assocs[i].lt, rt |-> L.assocs[i].rt]
=============================================================================
