SPECIFICATION LSpec
CONSTRAINT LBound
INVARIANT EmitL
INVARIANT GenWellFormed
CHECK_DEADLOCK FALSE
