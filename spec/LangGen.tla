------------------------------- MODULE LangGen -------------------------------
(* A LANGUAGE CONSTRUCTION MACHINE (quantifier "programs"): the state is a        *)
(* language record; actions add an asset (with or without parent), an association *)
(* (any multiplicity form, optionally re-using a name), a variable, a step of any  *)
(* kind, attach a reaches / requires expression drawn from the TYPED enumeration   *)
(* of navigation expressions, and grow an existing expression (set operator,       *)
(* transitive, subtype filter).  Every action is guarded by WellFormed(L') - the   *)
(* languages reached are exactly well-formed ones.  A second phase adds instances  *)
(* and links, so one random walk yields a (language, model) pair, which is emitted *)
(* with the attack graph the specification assigns to it.                          *)
EXTENDS Sem, LangViews, Json, IOUtils, TLC
EnvOr(k, d) == IF k \in DOMAIN IOEnv THEN IOEnv[k] ELSE d
TypePool == {"Ta", "Tb", "Tc", "Td"}
FieldPool == {"fa", "fb", "fc", "fd", "fe", "ff"}
StepPool == {"sa", "sb", "sc"}
VarPool == {"va", "vb"}
AssocNames == {"La", "Lb"}
MaxInst == 4
VARIABLES lgL, lgM, lgPhase
lvars == <<lgL, lgM, lgPhase>>
Enabled  == Fn("Enabled", <<>>)
Disabled == Fn("Disabled", <<>>)
Expo     == Fn("Exponential", <<1>>)

EmptyLang == Language("org.verif.gen", <<>>, <<>>)
EmptyModel == [type |-> [x \in {} |-> ""], def |-> [x \in {} |-> 0], links |-> {}]
LInit == lgL = EmptyLang /\ lgM = EmptyModel /\ lgPhase = "lang"
Names == AssetNames(lgL)
IdxA(T) == CHOOSE i \in DOMAIN lgL.assets : lgL.assets[i].name = T

(* ---- typed enumeration of navigation expressions ------------------------- *)
RECURSIVE NavE(_,_,_)
NavE(L, T, d) ==
  IF T = NONE THEN {} ELSE
  LET base == { F(p[1]) : p \in FieldsOf(L, T) } \cup { Var(v) : v \in VarsOf(L, T) } IN
  IF d = 0 THEN base
  ELSE LET prev == NavE(L, T, d - 1) IN
       prev \cup { Op(o, a, b) : o \in {"union", "intersection", "difference"}, a \in prev, b \in prev }
            \cup UNION { { Col(a, b) : b \in NavE(L, TypeOf(L, a, T), d - 1) } : a \in prev }
            \cup { Tr(a) : a \in prev }
            \cup UNION { { Sb(sb, a) : sb \in Subs(L, TypeOf(L, a, T)) \ {TypeOf(L, a, T)} } : a \in {p \in prev : TypeOf(L, p, T) # NONE} }
WellTyped(L, T, d) == { e \in NavE(L, T, d) : TypeOf(L, e, T) # NONE }
ReachesE(L, T, d) == { St(t) : t \in StepNames(L, T) } \cup
                     UNION { { Col(e, St(t)) : t \in StepNames(L, TypeOf(L, e, T)) } : e \in WellTyped(L, T, d) }
Pick(X) == IF X = {} THEN {} ELSE {RandomElement(X)}

(* ---- language phase -------------------------------------------------------- *)
SetL(L2) == lgL' = L2 /\ WellFormed(L2) /\ UNCHANGED <<lgM, lgPhase>>
AddAsset(n, sup, abs) ==
  /\ lgPhase = "lang" /\ n \notin Names /\ (sup = NONE \/ sup \in Names)
  /\ SetL([lgL EXCEPT !.assets = Append(@, [Asset(n, sup, <<>>, <<>>) EXCEPT !.abstract = abs])])
AddAssoc(nm, lt, lf, rt, rf, lmin, lmax, rmin, rmax) ==
  /\ lgPhase = "lang" /\ lt \in Names /\ rt \in Names /\ Len(lgL.assocs) < 5
  /\ ~\E i \in DOMAIN lgL.assocs : lgL.assocs[i].name = nm /\ lgL.assocs[i].lt = lt /\ lgL.assocs[i].rt = rt
  /\ SetL([lgL EXCEPT !.assocs = Append(@, Assoc(nm, lt, lf, lmin, lmax, rmin, rmax, rf, rt))])
AddStep(T, s, k, ttc, tags) ==
  /\ lgPhase = "lang" /\ T \in Names
  /\ ~\E i \in DOMAIN AssetRec(lgL, T).steps : AssetRec(lgL, T).steps[i].name = s
  /\ k \notin {"exist", "notExist"}
  /\ SetL([lgL EXCEPT !.assets[IdxA(T)].steps = Append(@, S(s, k, tags, NoRisk, ttc, <<>>, NoX, NoR))])
AddExistStep(T, s, k, e) ==
  /\ lgPhase = "lang" /\ T \in Names /\ k \in {"exist", "notExist"}
  /\ ~\E i \in DOMAIN AssetRec(lgL, T).steps : AssetRec(lgL, T).steps[i].name = s
  /\ SetL([lgL EXCEPT !.assets[IdxA(T)].steps = Append(@, S(s, k, <<>>, NoRisk, NoT, <<>>, Req(<<e>>), NoR))])
AddReach(T, i, e, ovr) ==
  /\ lgPhase = "lang" /\ T \in Names /\ i \in DOMAIN AssetRec(lgL, T).steps
  /\ LET st == AssetRec(lgL, T).steps[i] IN
     /\ Len(st.reaches.exprs) < 3
     /\ (st.reaches.present => ovr = st.reaches.overrides)
     /\ SetL([lgL EXCEPT !.assets[IdxA(T)].steps[i].reaches =
                [present |-> TRUE, overrides |-> ovr, exprs |-> Append(st.reaches.exprs, e)]])
AddVar(T, v, e) ==
  /\ lgPhase = "lang" /\ T \in Names
  /\ SetL([lgL EXCEPT !.assets[IdxA(T)].vars = Append(@, LetV(v, e))])
\* grow the navigation part of an existing reaches expression
NavOf(e) == IF e.type = "attackStep" THEN NONE ELSE e.lhs
Regrow(e, nav2) == Col(nav2, St(ReachStep(e)))
Grow(T, i, k, how, other, sb) ==
  /\ lgPhase = "lang" /\ T \in Names /\ i \in DOMAIN AssetRec(lgL, T).steps
  /\ k \in DOMAIN AssetRec(lgL, T).steps[i].reaches.exprs
  /\ LET e == AssetRec(lgL, T).steps[i].reaches.exprs[k] IN
     /\ e.type = "collect"
     /\ LET nav == e.lhs
            nav2 == CASE how = "union" -> Un(nav, other) [] how = "unionL" -> Un(other, nav)
                      [] how = "intersection" -> In(nav, other) [] how = "difference" -> Df(nav, other)
                      [] how = "differenceL" -> Df(other, nav)
                      [] how = "transitive" -> Tr(nav) [] how = "subType" -> Sb(sb, nav)
                      [] how = "collect" -> Col(nav, other)
        IN SetL([lgL EXCEPT !.assets[IdxA(T)].steps[i].reaches.exprs[k] = Regrow(e, nav2)])
Freeze == /\ lgPhase = "lang" /\ Len(lgL.assets) >= 2 /\ Len(lgL.assocs) >= 1
          /\ \E T \in Names : \E i \in DOMAIN AssetRec(lgL, T).steps : AssetRec(lgL, T).steps[i].reaches.present
          /\ lgPhase' = "model" /\ UNCHANGED <<lgL, lgM>>

(* ---- model phase ----------------------------------------------------------- *)
Insts == DOMAIN lgM.type
AddInst(x, T) ==
  /\ lgPhase = "model" /\ x \notin Insts /\ T \in Names /\ (x = 1 \/ (x - 1) \in Insts)
  /\ lgM' = [lgM EXCEPT !.type = [y \in Insts \cup {x} |-> IF y = x THEN T ELSE lgM.type[y]],
                        !.def = [y \in Insts \cup {x} |-> IF y = x THEN [d \in Defenses(lgL, T) |-> DefenseDefault(lgL, T, d)] ELSE lgM.def[y]]]
  /\ UNCHANGED <<lgL, lgPhase>>
SetDef(x, d, v) ==
  /\ lgPhase = "model" /\ x \in Insts /\ d \in Defenses(lgL, lgM.type[x])
  /\ lgM' = [lgM EXCEPT !.def[x][d] = v] /\ UNCHANGED <<lgL, lgPhase>>
PairLinked(c, a, b) == \E l \in lgM.links : l.cls = c /\ a \in l.l /\ b \in l.r
AddLink(c, X, Y) ==
  /\ lgPhase = "model" /\ c \in DOMAIN lgL.assocs /\ X # {} /\ Y # {} /\ X \subseteq Insts /\ Y \subseteq Insts
  /\ \A x \in X : IsSub(lgL, lgM.type[x], lgL.assocs[c].lt)
  /\ \A y \in Y : IsSub(lgL, lgM.type[y], lgL.assocs[c].rt)
  /\ (lgL.assocs[c].lmax # -1 => Cardinality(X) <= lgL.assocs[c].lmax)
  /\ (lgL.assocs[c].rmax # -1 => Cardinality(Y) <= lgL.assocs[c].rmax)
  /\ ~\E x \in X, y \in Y : PairLinked(c, x, y)
  /\ Cardinality(lgM.links) < 5
  /\ lgM' = [lgM EXCEPT !.links = @ \cup {[cls |-> c, l |-> X, r |-> Y]}] /\ UNCHANGED <<lgL, lgPhase>>

Mults == { <<0, -1>>, <<0, 1>>, <<1, 1>>, <<1, -1>>, <<0, 2>> }
\* every parameter is SAMPLED (RandomElement): a step has at most one successor per disjunct, so the simulator's
\* cost per step is a dozen WellFormed evaluations instead of thousands
LNext ==
  \/ \E n \in Pick(TypePool \ Names), sup \in Pick(Names \cup {NONE}) : AddAsset(n, sup, FALSE)
  \/ \E nm \in Pick(AssocNames), lt \in Pick(Names), rt \in Pick(Names), lf \in Pick(FieldPool), rf \in Pick(FieldPool), ml \in Pick(Mults), mr \in Pick(Mults) :
        AddAssoc(nm, lt, lf, rt, rf, ml[1], ml[2], mr[1], mr[2])
  \/ \E T \in Pick(Names), s \in Pick(StepPool), k \in Pick({"or", "or", "and", "defense"}), tg \in Pick({<<>>, <<"tg">>}) :
        \E tc \in Pick(IF k = "defense" THEN {NoT, Enabled, Disabled} ELSE {NoT, Expo}) : AddStep(T, s, k, tc, tg)
  \/ \E T \in Pick(Names), s \in Pick(StepPool), k \in Pick({"exist", "notExist"}) : \E e \in Pick(WellTyped(lgL, T, 1)) : AddExistStep(T, s, k, e)
  \/ \E T \in Pick(Names) : \E i \in Pick(DOMAIN AssetRec(lgL, T).steps) : \E e \in Pick(ReachesE(lgL, T, 1)), ovr \in Pick(BOOLEAN) : AddReach(T, i, e, ovr)
  \/ \E T \in Pick(Names) : \E i \in Pick(DOMAIN AssetRec(lgL, T).steps) : \E e \in Pick(ReachesE(lgL, T, 0)), ovr \in Pick(BOOLEAN) : AddReach(T, i, e, ovr)
  \/ \E T \in Pick(Names), v \in Pick(VarPool) : \E e \in Pick(WellTyped(lgL, T, 1)) : AddVar(T, v, e)
  \/ \E T \in Pick(Names) : \E i \in Pick(DOMAIN AssetRec(lgL, T).steps) : \E k \in Pick(DOMAIN AssetRec(lgL, T).steps[i].reaches.exprs) :
        \E how \in Pick({"union", "unionL", "intersection", "difference", "differenceL", "transitive", "subType", "collect"}) :
           \E other \in Pick(WellTyped(lgL, T, 0)), sb \in Pick(Names) : Grow(T, i, k, how, other, sb)
  \/ Freeze
  \/ \E T \in Pick(Names) : AddInst(IF Insts = {} THEN 1 ELSE Max(Insts) + 1, T) /\ Cardinality(Insts) < MaxInst
  \/ \E x \in Pick(Insts) : \E d \in Pick(Defenses(lgL, lgM.type[x])), v \in Pick({0, 5, 10}) : SetDef(x, d, v)
  \/ \E c \in Pick(DOMAIN lgL.assocs) : \E X \in Pick({Z \in SUBSET Insts : Cardinality(Z) \in {1, 2}}), Y \in Pick({Z \in SUBSET Insts : Cardinality(Z) \in {1, 2}}) : AddLink(c, X, Y)
  \/ \E c \in Pick(DOMAIN lgL.assocs) : \E x \in Pick(Insts), y \in Pick(Insts) : AddLink(c, {x}, {y})
LSpec == LInit /\ [][LNext]_lvars

(* ---- emission ---------------------------------------------------------------- *)
WithViews == EnvOr("VERIF_VIEWS", "0") = "1"
GDepth == atoi(EnvOr("VERIF_DEPTH", "28"))
Order == SetToSeq(Insts)
InstName(x) == "i" \o ToString(x)
EmitL == (TLCGet("level") = GDepth /\ lgPhase = "model" /\ Insts # {}) =>
   PrintT(ToJson([lang |-> lgL,
                  assets |-> [k \in DOMAIN Order |-> [h |-> Order[k], id |-> Order[k], name |-> InstName(Order[k]),
                                                      type |-> lgM.type[Order[k]], def |-> lgM.def[Order[k]], extras |-> 0]],
                  assocs |-> [k \in DOMAIN SetToSeq(lgM.links) |->
                                 LET l == SetToSeq(lgM.links)[k] IN
                                 [h |-> 100 + k, cls |-> l.cls, l |-> SetToSeq(l.l), r |-> SetToSeq(l.r), extras |-> 0]],
                  exp |-> GraphExp(lgL, lgM, Order),
                  name |-> "generated",
                  inv |-> IF WithViews THEN Inventory(lgL) ELSE [types |-> {}, classes |-> {}],
                  lgexp |-> IF WithViews THEN Expected(lgL) ELSE [assets |-> {}]]))
\* spec-level: the machine only reaches well-formed languages, and the expected graph is well formed
GenWellFormed == WellFormed(lgL) /\ (lgPhase = "model" => EdgesWellFormed(lgL, lgM))
LBound == TLCGet("level") <= GDepth
=============================================================================
