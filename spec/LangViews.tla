------------------------------ MODULE LangViews ------------------------------
(* Pure views of a language record: what the generated classes must expose (C06)  *)
(* and what the language graph must contain (C15).  Used for the library languages *)
(* (Eval_Inventory, Eval_LangGraph) and for the random well-formed languages of the *)
(* language construction machine (LangGen).                                         *)
EXTENDS Lang
Inventory(L) ==
  [ types   |-> { [name |-> T,
                   defs |-> { [d |-> d, dflt |-> DefenseDefault(L, T, d)] : d \in Defenses(L, T) },
                   nondef |-> StepNames(L, T) \ Defenses(L, T)] : T \in AssetNames(L) },
    classes |-> { [cls |-> i, lf |-> L.assocs[i].lf, rf |-> L.assocs[i].rf, lt |-> L.assocs[i].lt, rt |-> L.assocs[i].rt,
                   shared |-> NameShared(L, i), base |-> L.assocs[i].name] : i \in DOMAIN L.assocs } ]
AllFieldNames(L) == {L.assocs[i].lf : i \in DOMAIN L.assocs} \cup {L.assocs[i].rf : i \in DOMAIN L.assocs}
LookupExp(L, f1, f2, T1, T2) ==
  {i \in DOMAIN L.assocs :
     \/ L.assocs[i].lf = f1 /\ L.assocs[i].rf = f2 /\ IsSub(L, T1, L.assocs[i].lt) /\ IsSub(L, T2, L.assocs[i].rt)
     \/ L.assocs[i].lf = f2 /\ L.assocs[i].rf = f1 /\ IsSub(L, T2, L.assocs[i].lt) /\ IsSub(L, T1, L.assocs[i].rt)}
\* static step-to-step links: from step s exposed by T to step t on the static target type of each reaches expression
Links(L) == UNION { UNION { { [T |-> T, s |-> Fold(L, T)[i].name, U |-> ReachTargetType(L, Fold(L, T)[i].reaches.exprs[j], T),
                               t |-> ReachStep(Fold(L, T)[i].reaches.exprs[j])] : j \in DOMAIN Fold(L, T)[i].reaches.exprs }
                            : i \in DOMAIN Fold(L, T) } : T \in AssetNames(L) }
Expected(L) ==
  [ assets |-> { [name |-> T, super |-> SuperOf(L, T), subs |-> {U \in AssetNames(L) : SuperOf(L, U) = T},
                  allsubs |-> Subs(L, T), allsupers |-> Anc(L, T),
                  assocs |-> {i \in DOMAIN L.assocs : IsSub(L, T, L.assocs[i].lt) \/ IsSub(L, T, L.assocs[i].rt)},
                  steps |-> StepNames(L, T)] : T \in AssetNames(L) },
    issub |-> { <<T, U>> \in AssetNames(L) \X AssetNames(L) : IsSub(L, T, U) },
    common |-> { [a |-> T, b |-> U, anc |-> Anc(L, T) \cap Anc(L, U)] : T \in AssetNames(L), U \in AssetNames(L) },
    \* per association: which types it "contains" (a sub-asset of either end), which fields, the opposite field, and the
    \* opposite end for a type (left end is tried first)
    ends |-> { [i |-> i,
                has |-> {T \in AssetNames(L) : IsSub(L, T, L.assocs[i].lt) \/ IsSub(L, T, L.assocs[i].rt)},
                opp |-> { <<T, IF IsSub(L, T, L.assocs[i].lt) THEN L.assocs[i].rt ELSE L.assocs[i].lt>> :
                            T \in {U \in AssetNames(L) : IsSub(L, U, L.assocs[i].lt) \/ IsSub(L, U, L.assocs[i].rt)} },
                fields |-> {L.assocs[i].lf, L.assocs[i].rf}] : i \in DOMAIN L.assocs },
    lookups |-> { [f1 |-> f1, f2 |-> f2, T1 |-> T1, T2 |-> T2, idx |-> LookupExp(L, f1, f2, T1, T2)] :
                    f1 \in AllFieldNames(L), f2 \in AllFieldNames(L), T1 \in AssetNames(L), T2 \in AssetNames(L) },
    links |-> Links(L) ]
=============================================================================
