-------------------------------- MODULE Langs --------------------------------
(* A library of small feature languages (hand-written) and parametric families  *)
(* defined by comprehension.  Identifiers avoid the MAL keywords E C I A.        *)
EXTENDS Lang

Enabled  == Fn("Enabled", <<>>)
Disabled == Fn("Disabled", <<>>)
Expo(v)  == Fn("Exponential", <<v>>)
Bern(v)  == Fn("Bernoulli", <<v>>)

(* --- set operators over siblings under a common ancestor ------------------ *)
LSet == Language("org.verif.set",
  \* x / y: a set operator applied PER ASSET reached by the collect before it (hr.(rs - ps) is not (hr.rs) - (hr.ps))
  << Asset("Ra", NONE, <<>>, << Or("t", NoR),
                                Or("x", Ovr(<< Col(Col(F("hr"), Df(F("rs"), F("ps"))), St("t")) >>)),
                                Or("y", Ovr(<< Col(Col(F("hr"), In(F("rs"), F("ps"))), St("t")) >>)) >>),
     Asset("Pa", "Ra", <<>>, <<>>),
     Asset("Qa", "Ra", <<>>, <<>>),
     Asset("Ha", NONE, <<>>,
       << Or("u", Ovr(<< Col(Un(F("ps"), F("qs")), St("t")) >>)),
          Or("n", Ovr(<< Col(In(F("rs"), F("ps")), St("t")) >>)),
          Or("d", Ovr(<< Col(Df(F("rs"), F("ps")), St("t")) >>)),
          Or("dd", Ovr(<< Col(Df(Un(F("ps"), F("qs")), F("rs")), St("t")), St("u") >>)),
          \* a difference whose left operand is a two-hop collect: one target may be reached twice (set semantics)
          Or("m", Ovr(<< Col(Df(Col(F("rs"), F("hr")), Col(F("ps"), F("hp"))), St("u")) >>)) >>) >>,
  << AssocMany("HP", "Ha", "hp", "ps", "Pa"),
     AssocMany("HQ", "Ha", "hq", "qs", "Qa"),
     AssocMany("HR", "Ha", "hr", "rs", "Ra") >>)

(* --- transitive closure over a reflexive association (cycles, self-links) -- *)
LTrans == Language("org.verif.trans",
  << Asset("Na", NONE, <<>>,
       << Or("a", Ovr(<< Col(Tr(F("nxt")), St("a")) >>)),
          Or("b", Ovr(<< Col(Tr(F("prv")), St("b")), Col(F("nxt"), St("a")) >>)),
          And("c", Ovr(<< Col(Col(F("nxt"), Tr(F("nxt"))), St("c")) >>)) >>),
     Asset("Ma", "Na", <<>>,
       << Or("a", Ext(<< Col(Sb("Ma", Tr(F("nxt"))), St("b")) >>)) >>) >>,
  << AssocMany("Nx", "Na", "prv", "nxt", "Na") >>)

(* --- variables and inheritance, subtype filter ----------------------------- *)
LVar == Language("org.verif.var",
  << Asset("Ba", NONE, << LetV("peers", F("rt")) >>,
       << Or("s", Ovr(<< Col(Var("peers"), St("s")) >>)),
          Or("w", NoR) >>),
     Asset("Sa", "Ba", << LetV("subs", Sb("Sa", Var("peers"))) >>,
       << Or("s", Ext(<< Col(Var("subs"), St("w")) >>)),
          Or("w", Ovr(<< Col(Col(Var("peers"), F("lt")), St("s")), St("s") >>)) >>),
     \* a sibling declaring a variable of the same name with another definition (no shadowing: neither is an ancestor)
     Asset("Qa", "Ba", << LetV("subs", Col(Var("peers"), F("lt"))) >>,
       << Or("w", Ovr(<< Col(Var("subs"), St("w")) >>)) >>) >>,
  << AssocMany("Pe", "Ba", "lt", "rt", "Ba") >>)

(* --- defenses, existence steps, tags, TTCs, MITRE meta ---------------------- *)
LDef == Language("org.verif.def",
  << Asset("Da", NONE, <<>>,
       << Def("on", Enabled, Ovr(<< St("x") >>)),
          Def("off", Disabled, Ovr(<< St("x") >>)),
          Def("bare", NoT, NoR),
          Def("bern", Bern(5), Ovr(<< St("y") >>)),
          Ex("has", F("kids"), Ovr(<< St("x") >>)),
          NEx("hasnt", F("kids"), Ovr(<< St("y") >>)),
          S("x", "and", <<"hidden", "tg">>, Risk(TRUE, FALSE, TRUE), Expo(1), <<Meta("mitre", "T1000"), Meta("user", "info")>>, NoX,
            Ovr(<< Col(F("kids"), St("x")) >>)),
          S("y", "or", <<>>, NoRisk, NoT, <<>>, NoX, Ovr(<< Col(F("kids"), St("y")), St("x") >>)) >>),
     Asset("Ea", "Da", <<>>,
       << Def("extra", Enabled, NoR),
          Def("off", Enabled, NoR),          \* no reaches clause: Da's declaration stays (still Disabled)
          Def("bare", Enabled, Ovr(<< St("x") >>)),   \* '->' replaces the inherited definition (now Enabled)
          Def("bern", Enabled, Ext(<< St("x") >>)),   \* '+>' keeps the inherited definition (still Bernoulli)
          Or("y", Ext(<< Col(F("par"), St("y")) >>)) >>) >>,
  << Assoc("Tree", "Da", "par", 0, 1, 0, -1, "kids", "Da") >>)

(* --- multi-level inheritance: absent / no-reaches / -> / +> ----------------- *)
LInh == Language("org.verif.inh",
  << Asset("R0", NONE, <<>>, << Or("s", NoR), Or("t", NoR), Or("q", Ovr(<< St("t") >>)),
                                \* type filters whose matches may sit several levels below the filter type
                                Ex("ex", Sb("R1", F("fr")), Ovr(<< St("t") >>)),
                                NEx("nex", Sb("R2", F("fl")), NoR),
                                Or("w", Ovr(<< Col(Sb("R1", F("fr")), St("s")), Col(Sb("R3", F("fl")), St("q")) >>)) >>),
     Asset("R1", "R0", <<>>, << Or("s", Ext(<< Col(F("fr"), St("t")) >>)) >>),
     Asset("R2", "R1", <<>>, << Or("s", Ext(<< Col(F("fr"), St("s")) >>)), Or("q", NoR) >>),
     Asset("R3", "R2", <<>>, << Or("s", Ovr(<< St("q") >>)), Or("q", Ext(<< Col(F("fl"), St("q")) >>)) >>),
     Asset("R4", "R3", <<>>, << Or("s", Ext(<< St("t") >>)), Or("z", NoR) >>),
     Asset("Sib", "R1", <<>>, << Or("s", Ext(<< St("q") >>)) >>) >>,
  << AssocMany("Lk", "R0", "fl", "fr", "R0") >>)

(* --- duplicate association names, multiplicities, subtypes at association ends *)
LDup == Language("org.verif.dup",
  << Asset("Host", NONE, <<>>, << Or("acc", Ovr(<< Col(F("srvs"), St("run")), Col(F("peer"), St("acc")) >>)) >>),
     Asset("Srv", NONE, <<>>, << Or("run", Ovr(<< Col(F("host"), St("acc")) >>)) >>),
     Asset("Web", "Srv", <<>>, <<>>),
     Asset("Vm", "Host", <<>>, <<>>) >>,
  << Assoc("Dup", "Host", "host", 1, 1, 0, -1, "srvs", "Srv"),
     Assoc("Dup", "Host", "peerof", 0, 2, 0, 2, "peer", "Host"),
     Assoc("One", "Host", "h1", 0, 1, 0, 1, "s1", "Srv"),
     \* the same name once more between the same two types, MIRRORED (Srv on the left)
     Assoc("Dup", "Srv", "consumers", 0, -1, 0, -1, "consumed", "Host") >>)

(* --- a tiny language for state-machine configs ------------------------------ *)
LTiny == Language("org.verif.tiny",
  << Asset("Ta", NONE, <<>>,
       << Or("s", Ovr(<< Col(F("rs"), St("s")) >>)),
          Def("d", Disabled, Ovr(<< St("s") >>)) >>),
     \* the second expression reaches the same targets as the first whenever the link goes both ways: parallel edges
     Asset("Ua", "Ta", <<>>, << Or("s", Ext(<< Col(F("ls"), St("s")), Col(Col(Col(F("ls"), F("rs")), F("ls")), St("s")) >>)) >>) >>,
  << AssocMany("Lk", "Ta", "ls", "rs", "Ta"),
     Assoc("uu", "Ua", "ul", 0, 1, 0, 2, "ur", "Ua") >>)

(* --- a single type: every multiplicity form on reflexive associations ------- *)
LOne == Language("org.verif.one",
  << Asset("Oa", NONE, <<>>,
       << Def("g", Enabled, NoR),
          Or("s", Ovr(<< Col(F("mr"), St("s")), Col(F("tr"), St("s")), St("s") >>)) >>) >>,
  << AssocMany("Many", "Oa", "ml", "mr", "Oa"),
     Assoc("Two", "Oa", "tl", 0, 2, 1, 2, "tr", "Oa"),
     Assoc("Uno", "Oa", "ul", 0, 1, 1, 1, "ur", "Oa") >>)

(* --- two associations with the same name AND the same field names between different asset pairs; a field name
       that one asset owns while another association uses it for that very asset; same-named defenses with different
       defaults on unrelated types ------------------------------------------------------------------------------ *)
LSame == Language("org.verif.same",
  << Asset("Pa", NONE, <<>>, << Def("hard", Disabled, NoR), Or("s", Ovr(<< Col(F("things"), St("u")), Col(F("owner"), St("s")) >>)) >>),
     Asset("Qa", NONE, <<>>, << Def("hard", Enabled, NoR), Or("s", Ovr(<< Col(F("things"), St("u")) >>)) >>),
     Asset("Xa", NONE, <<>>, << Or("u", Ovr(<< Col(F("owner"), St("s")) >>)) >>),
     Asset("Ya", NONE, <<>>, << Or("u", Ovr(<< Col(F("owner"), St("s")) >>)) >>),
     Asset("Za", NONE, <<>>, << Or("s", NoR) >>) >>,
  << AssocMany("Own", "Pa", "owner", "things", "Xa"),
     AssocMany("Own", "Qa", "owner", "things", "Ya"),
     \* Za calls Pa "owner" as well - here Pa is the RIGHT asset of an association whose right field is "owner" ...
     AssocMany("Sub", "Za", "boss", "owner", "Pa"),
     \* ... and Pa itself owns a field "owner" leading to Za (Pa is called "owner" by Xa, too: first association)
     AssocMany("Adm", "Pa", "machines", "owner", "Za") >>)

Library == << LSet, LTrans, LVar, LDef, LInh, LDup, LTiny, LOne, LSame >>
LibraryNames == << "LSet", "LTrans", "LVar", "LDef", "LInh", "LDup", "LTiny", "LOne", "LSame" >>
=============================================================================
