SPECIFICATION FixedSpec
CONSTANTS
  Lng <- LngDef
  NamePool = {}
  IdPool = {}
  FreshPool = {}
  AutoNames = {}
  DefVals = {}
  StepPool = {}
  ExtrasPool = {}
  MaxAssets = 2
  MaxAssocs = 1
  MaxAtk = 2
  MaxH = 10
  MaxMembers = 1
  MaxNodes <- MaxNodesDef
  ExtraKinds = {"or", "and"}
  GIdPool <- GIdPoolDef
  TouchKinds <- TouchKindsDef
  GMaxAtk <- GMaxAtkDef
  GOpsOn <- GOpsDef
VIEW GView
CONSTRAINT LevelBound
CONSTRAINT HBound
INVARIANT Consistent
INVARIANT SlotsDisjoint
PROPERTY SlotsIndependent
PROPERTY CopyEqual
PROPERTY PruneExact
PROPERTY Idempotent
PROPERTY RemoveAttackerClears
PROPERTY RegenerateIsFresh
CHECK_DEADLOCK FALSE
