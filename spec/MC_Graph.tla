------------------------------ MODULE MC_Graph ------------------------------
(* Exhaustive design checks of GraphSM over a fixed small model (sliced per property). *)
EXTENDS GraphSM, Langs, IOUtils
EnvOr(k, d) == IF k \in DOMAIN IOEnv THEN IOEnv[k] ELSE d
LangByName(n) == Library[CHOOSE i \in DOMAIN Library : LibraryNames[i] = n]
LngDef == LangByName(EnvOr("VERIF_LANG", "LTiny"))
\* fixed model: a:Ta --Lk--> b:Ua (so a:s <-> b:s is a cycle), one attacker with an existing and a non-existing entry step
FixAssets == << [h |-> 1, id |-> 0, name |-> "a", type |-> "Ta", def |-> [d |-> 0], extras |-> 0],
                [h |-> 2, id |-> 1, name |-> "a:1", type |-> "Ua", def |-> [d |-> 10], extras |-> 0] >>
FixAssocs == << [h |-> 3, cls |-> 1, l |-> <<1>>, r |-> <<2>>, extras |-> 0] >>
\* entry points: a step name without a node ("zz", or a step whose node was removed before attaching) is listed BEFORE
\* existing ones on the same asset; two attackers share a:1:d
FixAtk == << [h |-> 4, id |-> 2, name |-> "atk", ep |-> << [a |-> 1, steps |-> <<"zz", "s">>], [a |-> 2, steps |-> <<"d">>] >>],
             [h |-> 5, id |-> 3, name |-> "atk2", ep |-> << [a |-> 2, steps |-> <<"d", "s">>] >>] >>
FixedInit == /\ vAssets = FixAssets /\ vAssocs = FixAssocs /\ vAtk = FixAtk
             /\ vDead = {} /\ vDeadAs = {} /\ vDeadAtk = {} /\ vGone = EmptyMap /\ vNextId = 4 /\ vNextH = 6
             /\ vAct = [op |-> "Init", res |-> "ok"]
             /\ gS = [g \in Slots |-> EmptySlot] /\ gAct = [op |-> "Init", res |-> "ok"] /\ gNextH = 1001
FixedSpec == FixedInit /\ [][GraphNext]_allvars
GIdPoolDef == {NoId, 0}
IdPoolNone == {NoId}
DefValsGraph == {0, 5, 10}
StepPoolG == {"s", "d", "zz"}
SliceOps(n) == CASE n = "C09" -> {"Generate", "Sibling", "Regenerate", "AddNode", "Link", "RemoveNode", "AttachAttackers", "RemoveGAttacker", "Undo", "Prune", "Analyse"}
              [] n = "C11" -> {"Generate", "Sibling", "DeepCopy", "AttachAttackers", "AddGAttacker", "RemoveGAttacker", "Compromise", "Undo", "RemoveNode"}
              [] n = "C13" -> {"Generate", "AddNode", "Link", "Analyse", "Prune", "AttachAttackers", "Touch"}
              [] n = "C14" -> {"Generate", "Sibling", "AttachAttackers", "Analyse", "DeepCopy", "RemoveNode", "Compromise", "Touch", "AddNode", "RemoveGAttacker"}
              [] n = "C10" -> {"Generate", "Sibling", "AttachAttackers", "Analyse", "Prune", "Compromise", "Undo", "RemoveNode", "Touch", "SaveLoad"}
              [] n = "C09L" -> {"Generate", "AddNode", "Link", "RemoveNode", "DeepCopy", "SaveLoad", "AttachAttackers"}   \* structure after copy / load
              [] n = "C10R" -> {"Generate", "AttachAttackers", "Undo", "RemoveNode", "SaveLoad"}    \* removals before saving
              [] n = "C11M" -> {"Generate", "AttachAttackers", "AddGAttacker", "RemoveGAttacker", "Compromise", "Undo", "RemoveNode"}   \* design check: one slot
              [] n = "C13D" -> {"Generate", "AddNode", "Link", "Analyse", "Prune"}    \* added steps with a TTC distribution, linked, labelled, pruned
              [] n = "C13L" -> {"Generate", "AttachAttackers", "Undo", "Touch", "SaveLoad", "Prune"}   \* prune loaded graphs / after undo
              [] n = "C10A" -> {"Generate", "AddNode", "Link", "SaveLoad"}    \* nodes without an asset; a loaded graph saved again
              [] n = "C10F" -> {"Generate", "AddGAttacker", "Compromise", "SaveLoad"}
              [] n = "ALL" -> {"Generate", "Sibling", "Regenerate", "AddNode", "Link", "RemoveNode", "Prune", "Analyse", "AttachAttackers", "AddGAttacker", "RemoveGAttacker", "Compromise", "Undo", "DeepCopy", "SaveLoad", "Touch"}
              [] OTHER -> {"Generate"}
TouchKindsDef == IF EnvOr("VERIF_TOUCH", "all") = "label" THEN {"label"} ELSE {"tags", "extras", "ttc", "label"}
GMaxAtkDef == atoi(EnvOr("VERIF_GMAXATK", "2"))
GOpsDef == SliceOps(EnvOr("VERIF_SLICE", "C09"))
MaxNodesDef == atoi(EnvOr("VERIF_MAXNODES", "5"))
LevelBound == TLCGet("level") <= atoi(EnvOr("VERIF_DEPTH", "100"))
HBound == gNextH <= 1001 + atoi(EnvOr("VERIF_MAXGH", "7"))
=============================================================================
