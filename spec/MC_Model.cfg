SPECIFICATION Spec
CONSTANTS
  Lng <- LngDef
  NamePool <- NamePoolDef
  IdPool <- IdPoolDef
  FreshPool <- FreshPoolDef
  AutoNames <- AutoNamesDef
  DefVals <- DefValsDef
  StepPool <- StepPoolDef
  MaxAssets = 2
  MaxAssocs = 2
  MaxAtk = 1
  MaxH = 4
  MaxMembers = 2
VIEW StateView
INVARIANT UniqueIds
INVARIANT UniqueNames
INVARIANT MembersLive
INVARIANT NoEmptyField
INVARIANT EntryPointsLive
INVARIANT FieldTypesConform
INVARIANT MaxMultiplicity
INVARIANT NoRepeatInField
INVARIANT LinkUnique
INVARIANT DefenseRange
INVARIANT DefenseDomain
INVARIANT HandlesDisjoint
INVARIANT NbrsSymmetric
PROPERTY RejUnchanged
PROPERTY RemovedLeavesNoTrace
CHECK_DEADLOCK FALSE
