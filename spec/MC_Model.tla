------------------------------ MODULE MC_Model ------------------------------
(* Exhaustive design check of ModelSM (C05, C06) in a small universe.          *)
EXTENDS ModelSM, Langs, IOUtils
LangByName(n) == Library[CHOOSE i \in DOMAIN Library : LibraryNames[i] = n]
EnvOr(k, d) == IF k \in DOMAIN IOEnv THEN IOEnv[k] ELSE d
LngDef == LangByName(EnvOr("VERIF_LANG", "LTiny"))
NamePoolDef == {"n1", "n1:1", NONE}
\* behaviour generation also requests a name of the form the AUTOMATIC naming produces: "<first type>:1"
NamePoolGen == NamePoolDef \cup {LngDef.assets[1].name \o ":1"}
IdPoolDef == {NoId, 0, -1, 2}
IdPoolSmall == {NoId, 0}
IdPoolNone == {NoId}
\* files: every entry states its id and its name; names repeat, ids come in any order (0, negative, gaps)
IdPoolFile == {0, -1, 2, 5}
NamePoolFile == {"n1", "n1:2", "n1:2:5"}
DefValsGraph == {0, 5, 10}
\* VERIF_READD=1: objects the caller got back (removed / rejected) may be handed in again
ReAddEnv == EnvOr("VERIF_READD", "0") = "1"
ReAddYes == TRUE
StepPoolOne == {"s"}
MaxAssetsDef == atoi(EnvOr("VERIF_MAXASSETS", "3"))
MaxAssocsDef == atoi(EnvOr("VERIF_MAXASSOCS", "3"))
MaxMembersDef == atoi(EnvOr("VERIF_MAXMEMBERS", "2"))
DefValsWide == IF EnvOr("VERIF_NODEF", "0") = "1" THEN {} ELSE {-1, 0, 5, 10, 15}
FreshPoolDef == {1, 3}
AutoNamesDef == {"auto1", "auto2"}
DefValsDef == {-1, 0, 5, 10, 15}
DefValsSmall == {-1, 5}
StepPoolDef == {"s", "zz"}
\* random behaviours also name a step that starts with a capital letter
StepPoolSim == {"s", "zz", "Zz"}
MaxHDef == atoi(EnvOr("VERIF_MAXH", "4"))
ASSUME WellFormed(LngDef)
=============================================================================
