SPECIFICATION Spec
CONSTANTS
  ReAddOn <- ReAddEnv
  Lng <- LngDef
  NamePool <- NamePoolDef
  IdPool <- IdPoolDef
  FreshPool <- FreshPoolDef
  AutoNames <- AutoNamesDef
  DefVals = {}
  StepPool = {}
  ExtrasPool = {}
  MaxAssets = 2
  MaxAssocs = 2
  MaxAtk = 0
  MaxH <- MaxHDef
  MaxMembers = 2
VIEW StateView
INVARIANT UniqueIds
INVARIANT UniqueNames
INVARIANT MembersLive
INVARIANT NoEmptyField
INVARIANT FieldTypesConform
INVARIANT MaxMultiplicity
INVARIANT NoRepeatInField
INVARIANT LinkUnique
INVARIANT HandlesDisjoint
INVARIANT NbrsSymmetric
PROPERTY RejUnchanged
PROPERTY RemovedLeavesNoTrace
CHECK_DEADLOCK FALSE
