SPECIFICATION Spec
CONSTANTS
  ReAddOn <- ReAddEnv
  Lng <- LngDef
  NamePool = {"n1", "NONE"}
  IdPool <- IdPoolSmall
  FreshPool = {1}
  AutoNames = {"auto1"}
  DefVals <- DefValsSmall
  StepPool <- StepPoolDef
  ExtrasPool = {1}
  MaxAssets = 2
  MaxAssocs = 0
  MaxAtk = 1
  MaxH = 3
  MaxMembers = 0
VIEW StateView
INVARIANT UniqueIds
INVARIANT UniqueNames
INVARIANT EntryPointsLive
INVARIANT DefenseRange
INVARIANT DefenseDomain
INVARIANT HandlesDisjoint
PROPERTY RejUnchanged
PROPERTY RemovedLeavesNoTrace
CHECK_DEADLOCK FALSE
