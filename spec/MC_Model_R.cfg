SPECIFICATION Spec
CONSTANTS
  ReAddOn <- ReAddYes
  Lng <- LngDef
  NamePool = {"n1", "NONE"}
  IdPool <- IdPoolSmall
  FreshPool = {1, 2}
  AutoNames = {"auto1"}
  DefVals = {}
  StepPool <- StepPoolOne
  ExtrasPool = {}
  MaxAssets = 2
  MaxAssocs = 1
  MaxAtk = 1
  MaxH <- MaxHDef
  MaxMembers = 1
VIEW StateView
INVARIANT UniqueIds
INVARIANT UniqueNames
INVARIANT MembersLive
INVARIANT NoEmptyField
INVARIANT EntryPointsLive
INVARIANT FieldTypesConform
INVARIANT MaxMultiplicity
INVARIANT NoRepeatInField
INVARIANT LinkUnique
INVARIANT HandlesDisjoint
INVARIANT NbrsSymmetric
PROPERTY RejUnchanged
PROPERTY RemovedLeavesNoTrace
CHECK_DEADLOCK FALSE
