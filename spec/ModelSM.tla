------------------------------ MODULE ModelSM ------------------------------
(* The instance model (maltoolbox.model.Model + AttackerAttachment) as a state  *)
(* machine: one action per public call, each with an accepting and a rejecting  *)
(* variant.  C05 (coherence under any history), C06 (only what the language     *)
(* allows).  Python objects are identified by HANDLES chosen by the environment *)
(* (action parameter nh \notin Known), because several operations take an       *)
(* object that may not (or no longer) be in the model.                           *)
(*                                                                              *)
(* Where the property is silent and the code makes a policy choice (default id, *)
(* automatic name) the choice is an explicit action parameter: Next quantifies  *)
(* it over a pool (design check), GenNext refines it to the documented policy   *)
(* (generation), the trace specification binds it from the log.                 *)
EXTENDS Sem

CONSTANTS Lng,        \* the language record
          NamePool,   \* requested names; NONE = create the asset without a name
          IdPool,     \* requested ids; NoId = no id requested
          FreshPool,  \* ids the abstract machine may choose as "default id"
          AutoNames,  \* names the abstract machine may choose as "automatic name"
          DefVals,    \* defense values (tenths) a caller may try to set
          MaxAssets, MaxAssocs, MaxAtk, MaxH,
          MaxMembers, \* longest member list tried in an association field
          StepPool,   \* entry-point step names tried
          ExtrasPool  \* extras tokens a caller may attach (0 = none)

NoId == 99
VARIABLES vAssets,   \* Seq([h, id, name, type, def, extras])   live assets, list order
          vAssocs,   \* Seq([h, cls, l, r, extras])   l, r : Seq(asset h)
          vAtk,      \* Seq([h, id, name, ep])   ep : Seq([a, steps])   model attackers
          vDead,     \* handles of asset objects that were removed or whose add was rejected
          vDeadAs,   \* same for association objects
          vDeadAtk,  \* same for attacker objects
          vGone,     \* what a dead object looks like (the caller still holds it and may hand it back):
                     \* asset [id, name, type, def, extras] / association [cls, l, r, extras] / attacker [id, name, ep]
          vNextId,   \* policy state: the default id the documented policy would choose next
          vNextH,    \* next fresh handle (generation mode)
          vAct       \* label of the last action
mvars == <<vAssets, vAssocs, vAtk, vDead, vDeadAs, vDeadAtk, vGone, vNextId, vNextH, vAct>>
pvars == <<vAssets, vAssocs, vAtk>>                  \* the property-level state

LiveH    == {vAssets[k].h : k \in DOMAIN vAssets}
LiveIds  == {vAssets[k].id : k \in DOMAIN vAssets}
LiveNm   == {vAssets[k].name : k \in DOMAIN vAssets}
LiveAs   == {vAssocs[k].h : k \in DOMAIN vAssocs}
LiveAtk  == {vAtk[k].h : k \in DOMAIN vAtk}
AtkIds   == {vAtk[k].id : k \in DOMAIN vAtk}
AssetOf(hh) == vAssets[CHOOSE k \in DOMAIN vAssets : vAssets[k].h = hh]
AssocOf(ah) == vAssocs[CHOOSE k \in DOMAIN vAssocs : vAssocs[k].h = ah]
AtkOf(th)   == vAtk[CHOOSE k \in DOMAIN vAtk : vAtk[k].h = th]
TypeOfH(hh) == AssetOf(hh).type
Decl(c)  == Lng.assocs[c]
Known    == LiveH \cup vDead \cup LiveAs \cup vDeadAs \cup LiveAtk \cup vDeadAtk
Types    == AssetNames(Lng)
Bump(nh) == IF nh >= vNextH THEN nh + 1 ELSE vNextH

Init == /\ vAssets = <<>> /\ vAssocs = <<>> /\ vAtk = <<>>
        /\ vDead = {} /\ vDeadAs = {} /\ vDeadAtk = {} /\ vGone = EmptyMap
        /\ vNextId = 0 /\ vNextH = 1 /\ vAct = [op |-> "Init", res |-> "ok"]

\* Python compares these objects BY VALUE (python_jsonschema_objects, dataclass): a dead object that is
\* indistinguishable from a live one ("value twin") is outside the specified domain of the handle-taking calls
TwinAsset(hh) == hh \in DOMAIN vGone /\ \E k \in DOMAIN vAssets : vAssets[k].id = vGone[hh].id /\ vAssets[k].name = vGone[hh].name
ValKey(hh) == IF \E k \in DOMAIN vAssets : vAssets[k].h = hh
              THEN LET a == vAssets[CHOOSE k \in DOMAIN vAssets : vAssets[k].h = hh] IN <<a.id, a.name>>
              ELSE IF hh \in DOMAIN vGone THEN <<vGone[hh].id, vGone[hh].name>> ELSE <<hh>>
ValKeys(q) == [i \in DOMAIN q |-> ValKey(q[i])]
TwinAssoc(ah) == ah \in DOMAIN vGone /\ \E k \in DOMAIN vAssocs : /\ vAssocs[k].cls = vGone[ah].cls
                                                                   /\ ValKeys(vAssocs[k].l) = ValKeys(vGone[ah].l)
                                                                   /\ ValKeys(vAssocs[k].r) = ValKeys(vGone[ah].r)
TwinAtk(th)   == th \in DOMAIN vGone /\ \E k \in DOMAIN vAtk : vAtk[k].id = vGone[th].id /\ vAtk[k].name = vGone[th].name

(* ------------------------------- assets -------------------------------- *)
DefaultDefs(T) == [d \in Defenses(Lng, T) |-> DefenseDefault(Lng, T, d)]
\* documented policy: unnamed -> "<type>:<id>", duplicate name -> "<name>:<id>"
PolicyName(T, reqName, id) == IF reqName = NONE THEN T \o ":" \o ToString(id) ELSE reqName \o ":" \o ToString(id)
NeedsAutoName(reqName) == reqName = NONE \/ reqName \in LiveNm

\* The object handed to add_asset is either NEW (handle not known) or one the caller holds from before: an asset that
\* was removed, or whose add was rejected. It comes back with its type, its last name, its defense values and extras;
\* the id is assigned anew, associations and entry points are not restored.
ReAddOn == FALSE                         \* configurations that explore re-adds override this
IsNewObj(nh) == nh \notin Known
IsBackAsset(nh) == nh \in vDead /\ nh \in DOMAIN vGone
AssetObjOK(nh, T, reqName) == \/ IsNewObj(nh)
                              \/ IsBackAsset(nh) /\ vGone[nh].type = T /\ vGone[nh].name = reqName
ObjDefs(nh, T) == IF IsNewObj(nh) THEN DefaultDefs(T) ELSE vGone[nh].def
ObjExtras(nh) == IF IsNewObj(nh) THEN 0 ELSE vGone[nh].extras
DeadRec(nh, T, reqName, reqId) == [id |-> reqId, name |-> reqName, type |-> T, def |-> ObjDefs(nh, T), extras |-> ObjExtras(nh)]
Drop(f, x) == [y \in DOMAIN f \ {x} |-> f[y]]

AddAssetOK(T, reqName, reqId, allowDup, newId, newName, nh) ==
  /\ Len(vAssets) < MaxAssets /\ nh <= MaxH /\ AssetObjOK(nh, T, reqName) /\ T \in Types
  /\ reqId # NoId => (reqId \notin LiveIds /\ newId = reqId)        \* an explicit id is honoured (0, negative too)
  /\ newId \notin LiveIds                                            \* a default id is any id not live
  /\ \/ /\ reqName # NONE /\ reqName \notin LiveNm /\ newName = reqName
     \/ /\ reqName # NONE /\ reqName \in LiveNm /\ allowDup /\ newName \notin LiveNm
     \/ /\ reqName = NONE /\ newName \notin LiveNm
  /\ vAssets' = Append(vAssets, [h |-> nh, id |-> newId, name |-> newName, type |-> T,
                                 def |-> ObjDefs(nh, T), extras |-> ObjExtras(nh)])
  /\ vNextId' = IF newId + 1 > vNextId THEN newId + 1 ELSE vNextId
  /\ vNextH' = Bump(nh)
  /\ vAct' = [op |-> "AddAsset", T |-> T, reqName |-> reqName, reqId |-> reqId, allowDup |-> allowDup,
              res |-> "ok", h |-> nh, id |-> newId, name |-> newName,
              polId |-> (reqId = NoId), polName |-> NeedsAutoName(reqName)]
  /\ vDead' = vDead \ {nh} /\ vGone' = Drop(vGone, nh)
  /\ UNCHANGED <<vAssocs, vAtk, vDeadAs, vDeadAtk>>
AddAssetRej(T, reqName, reqId, allowDup, nh) ==
  /\ nh <= MaxH /\ AssetObjOK(nh, T, reqName) /\ T \in Types
  /\ \/ reqId # NoId /\ reqId \in LiveIds
     \/ reqName # NONE /\ reqName \in LiveNm /\ ~allowDup
  /\ vDead' = vDead \cup {nh} /\ vNextH' = Bump(nh) /\ vGone' = Put(vGone, nh, DeadRec(nh, T, reqName, reqId))
  /\ vAct' = [op |-> "AddAsset", T |-> T, reqName |-> reqName, reqId |-> reqId, allowDup |-> allowDup,
              res |-> "exc", h |-> nh, id |-> NoId, name |-> NONE, polId |-> FALSE, polName |-> FALSE]
  /\ UNCHANGED <<vAssets, vAssocs, vAtk, vDeadAs, vDeadAtk, vNextId>>
\* the policy name is already live: the property allows a rejection (state unchanged) or any other
\* fresh name; nothing more specific can be predicted, generated behaviours end here
AddAssetCollide(T, reqName, reqId, allowDup, newId, nh) ==
  /\ Len(vAssets) < MaxAssets /\ nh <= MaxH /\ AssetObjOK(nh, T, reqName) /\ T \in Types
  /\ reqId # NoId => (reqId \notin LiveIds /\ newId = reqId)
  /\ newId \notin LiveIds
  /\ NeedsAutoName(reqName) /\ (reqName # NONE => allowDup)
  /\ PolicyName(T, reqName, newId) \in LiveNm
  /\ vDead' = vDead \cup {nh} /\ vNextH' = Bump(nh) /\ vGone' = Put(vGone, nh, DeadRec(nh, T, reqName, reqId))
  /\ vAct' = [op |-> "AddAsset", T |-> T, reqName |-> reqName, reqId |-> reqId, allowDup |-> allowDup,
              res |-> "collide", h |-> nh, id |-> newId, name |-> NONE, polId |-> (reqId = NoId), polName |-> TRUE]
  /\ UNCHANGED <<vAssets, vAssocs, vAtk, vDeadAs, vDeadAtk, vNextId>>

StripAssoc(a, hh) == [a EXCEPT !.l = Without(a.l, hh), !.r = Without(a.r, hh)]
MapStrip(s, hh) == [k \in DOMAIN s |-> StripAssoc(s[k], hh)]
KeepNonEmpty(s) == SelectSeq(s, LAMBDA a : a.l # <<>> /\ a.r # <<>>)
StripEp(t, hh) == [t EXCEPT !.ep = SelectSeq(@, LAMBDA e : e.a # hh)]
RemoveAssetOK(hh) ==
  /\ hh \in LiveH
  /\ vAssets' = SelectSeq(vAssets, LAMBDA a : a.h # hh)
  /\ vAssocs' = KeepNonEmpty(MapStrip(vAssocs, hh))                 \* gone from every field; emptied associations go too
  /\ vAtk' = [k \in DOMAIN vAtk |-> StripEp(vAtk[k], hh)]          \* and from every attacker's entry points
  /\ vDead' = vDead \cup {hh}
  /\ vDeadAs' = vDeadAs \cup (LiveAs \ {vAssocs'[k].h : k \in DOMAIN vAssocs'})
  /\ vGone' = [x \in DOMAIN vGone \cup {hh} \cup (vDeadAs' \ vDeadAs) |->
                 IF x = hh THEN [id |-> AssetOf(hh).id, name |-> AssetOf(hh).name, type |-> AssetOf(hh).type,
                                 def |-> AssetOf(hh).def, extras |-> AssetOf(hh).extras]
                 ELSE IF x \in DOMAIN vGone THEN vGone[x]
                 \* an association that lost a whole side is dropped AS IT IS: the object keeps its member lists
                 ELSE [cls |-> AssocOf(x).cls, l |-> AssocOf(x).l, r |-> AssocOf(x).r, extras |-> AssocOf(x).extras]]
  /\ vAct' = [op |-> "RemoveAsset", h |-> hh, res |-> "ok"]
  /\ UNCHANGED <<vDeadAtk, vNextId, vNextH>>
RemoveAssetRej(hh) ==
  /\ hh \in vDead /\ ~TwinAsset(hh)
  /\ vAct' = [op |-> "RemoveAsset", h |-> hh, res |-> "exc"]
  /\ UNCHANGED <<vAssets, vAssocs, vAtk, vDead, vDeadAs, vDeadAtk, vGone, vNextId, vNextH>>

\* C06: defense values outside [0,1] are rejected
SetDefense(hh, d, v) ==
  /\ hh \in LiveH /\ d \in Defenses(Lng, TypeOfH(hh))
  /\ LET ok == v >= 0 /\ v <= 10 IN
     /\ vAssets' = IF ok THEN [k \in DOMAIN vAssets |-> IF vAssets[k].h = hh THEN [vAssets[k] EXCEPT !.def[d] = v] ELSE vAssets[k]]
                         ELSE vAssets
     /\ vAct' = [op |-> "SetDefense", h |-> hh, d |-> d, v |-> v, res |-> IF ok THEN "ok" ELSE "exc"]
  /\ UNCHANGED <<vAssocs, vAtk, vDead, vDeadAs, vDeadAtk, vGone, vNextId, vNextH>>
SetAssetExtras(hh, x) ==
  /\ hh \in LiveH
  /\ vAssets' = [k \in DOMAIN vAssets |-> IF vAssets[k].h = hh THEN [vAssets[k] EXCEPT !.extras = x] ELSE vAssets[k]]
  /\ vAct' = [op |-> "SetAssetExtras", h |-> hh, x |-> x, res |-> "ok"]
  /\ UNCHANGED <<vAssocs, vAtk, vDead, vDeadAs, vDeadAtk, vGone, vNextId, vNextH>>

(* ----------------------------- associations ---------------------------- *)
LinkExists(c, a, b) == \E k \in DOMAIN vAssocs : vAssocs[k].cls = c /\ a \in Range(vAssocs[k].l) /\ b \in Range(vAssocs[k].r)
AssocReason(c, l, r) ==                    \* C06: why an association is rejected
  IF l = <<>> \/ r = <<>> THEN "empty"
  ELSE IF \E e \in Range(l) : ~IsSub(Lng, TypeOfH(e), Decl(c).lt) THEN "type"
  ELSE IF \E e \in Range(r) : ~IsSub(Lng, TypeOfH(e), Decl(c).rt) THEN "type"
  ELSE IF Decl(c).lmax # -1 /\ Len(l) > Decl(c).lmax THEN "max"
  ELSE IF Decl(c).rmax # -1 /\ Len(r) > Decl(c).rmax THEN "max"
  ELSE IF ~NoRepeat(l) \/ ~NoRepeat(r) THEN "repeat"
  ELSE IF \E a \in Range(l), b \in Range(r) : LinkExists(c, a, b) THEN "duplicate"
  ELSE "ok"
\* a new association object, or one the caller holds from before (removed, dropped when it lost a side, or rejected):
\* it comes back with the class, the member lists and the extras it has
IsBackAssoc(nh) == nh \in vDeadAs /\ nh \in DOMAIN vGone
AssocObjOK(nh, c, l, r) == \/ IsNewObj(nh)
                           \/ IsBackAssoc(nh) /\ vGone[nh].cls = c /\ vGone[nh].l = l /\ vGone[nh].r = r
AssocExtras(nh) == IF IsNewObj(nh) THEN 0 ELSE vGone[nh].extras
AddAssociation(c, l, r, nh) ==
  /\ nh <= MaxH /\ AssocObjOK(nh, c, l, r) /\ c \in DOMAIN Lng.assocs
  /\ Range(l) \cup Range(r) \subseteq LiveH
  /\ LET why == AssocReason(c, l, r) IN
     /\ why # "empty"                      \* an empty field is outside the property's domain
     /\ why = "ok" => Len(vAssocs) < MaxAssocs
     /\ vAssocs' = IF why = "ok" THEN Append(vAssocs, [h |-> nh, cls |-> c, l |-> l, r |-> r, extras |-> AssocExtras(nh)]) ELSE vAssocs
     /\ vDeadAs' = IF why = "ok" THEN vDeadAs \ {nh} ELSE vDeadAs \cup {nh}
     /\ vGone' = IF why = "ok" THEN Drop(vGone, nh) ELSE Put(vGone, nh, [cls |-> c, l |-> l, r |-> r, extras |-> AssocExtras(nh)])
     /\ vAct' = [op |-> "AddAssociation", cls |-> c, l |-> l, r |-> r, res |-> (IF why = "ok" THEN "ok" ELSE "exc"),
                 why |-> why, h |-> nh]
  /\ vNextH' = Bump(nh)
  /\ UNCHANGED <<vAssets, vAtk, vDead, vDeadAtk, vNextId>>
RemoveAssociationOK(ah) ==
  /\ ah \in LiveAs
  /\ vAssocs' = SelectSeq(vAssocs, LAMBDA a : a.h # ah) /\ vDeadAs' = vDeadAs \cup {ah}
  /\ vGone' = Put(vGone, ah, [cls |-> AssocOf(ah).cls, l |-> AssocOf(ah).l, r |-> AssocOf(ah).r, extras |-> AssocOf(ah).extras])
  /\ vAct' = [op |-> "RemoveAssociation", h |-> ah, res |-> "ok"]
  /\ UNCHANGED <<vAssets, vAtk, vDead, vDeadAtk, vNextId, vNextH>>
RemoveAssociationRej(ah) ==
  /\ ah \in vDeadAs /\ ~TwinAssoc(ah)
  /\ vAct' = [op |-> "RemoveAssociation", h |-> ah, res |-> "exc"]
  /\ UNCHANGED <<vAssets, vAssocs, vAtk, vDead, vDeadAs, vDeadAtk, vGone, vNextId, vNextH>>
RemoveFromAssoc(hh, ah) ==
  /\ hh \in LiveH \cup vDead /\ ah \in LiveAs \cup vDeadAs
  /\ ~TwinAsset(hh) /\ ~TwinAssoc(ah)
  /\ LET ok == hh \in LiveH /\ ah \in LiveAs /\ hh \in Range(AssocOf(ah).l) \cup Range(AssocOf(ah).r) IN
     /\ vAssocs' = IF ok THEN KeepNonEmpty([k \in DOMAIN vAssocs |->
                                  IF vAssocs[k].h = ah THEN StripAssoc(vAssocs[k], hh) ELSE vAssocs[k]])
                         ELSE vAssocs
     /\ vDeadAs' = vDeadAs \cup (LiveAs \ {vAssocs'[k].h : k \in DOMAIN vAssocs'})
     /\ vGone' = [x \in DOMAIN vGone \cup (vDeadAs' \ vDeadAs) |->
                    IF x \in DOMAIN vGone THEN vGone[x]
                    ELSE [cls |-> AssocOf(x).cls, l |-> AssocOf(x).l, r |-> AssocOf(x).r, extras |-> AssocOf(x).extras]]   \* dropped as it is
     /\ vAct' = [op |-> "RemoveFromAssoc", h |-> hh, ah |-> ah, res |-> IF ok THEN "ok" ELSE "exc"]
  /\ UNCHANGED <<vAssets, vAtk, vDead, vDeadAtk, vNextId, vNextH>>
SetAssocExtras(ah, x) ==
  /\ ah \in LiveAs
  /\ vAssocs' = [k \in DOMAIN vAssocs |-> IF vAssocs[k].h = ah THEN [vAssocs[k] EXCEPT !.extras = x] ELSE vAssocs[k]]
  /\ vAct' = [op |-> "SetAssocExtras", h |-> ah, x |-> x, res |-> "ok"]
  /\ UNCHANGED <<vAssets, vAtk, vDead, vDeadAs, vDeadAtk, vGone, vNextId, vNextH>>

(* ------------------------------ attackers ------------------------------ *)
\* attacker ids: an explicit id is honoured; a default id is any id (the property only speaks of
\* asset ids); an explicit id equal to a live attacker's is outside the specified domain
\* a new attacker object or one that was removed earlier: it comes back with its name and the entry points it has
IsBackAtk(nh) == nh \in vDeadAtk /\ nh \in DOMAIN vGone
AddAttacker(reqId, reqName, newId, newName, ep0, nh) ==
  /\ Len(vAtk) < MaxAtk /\ nh <= MaxH
  /\ \/ IsNewObj(nh)
     \/ IsBackAtk(nh) /\ reqName = vGone[nh].name /\ ep0 = vGone[nh].ep
  /\ reqId # NoId => (newId = reqId /\ reqId \notin AtkIds)
  /\ newId \notin AtkIds
  /\ reqName # NONE => newName = reqName
  /\ \A i \in DOMAIN ep0 : ep0[i].a \in LiveH                     \* entry points prepared before the call
  /\ vAtk' = Append(vAtk, [h |-> nh, id |-> newId, name |-> newName, ep |-> ep0])
  /\ vNextId' = IF newId + 1 > vNextId THEN newId + 1 ELSE vNextId
  /\ vNextH' = Bump(nh)
  /\ vAct' = [op |-> "AddAttacker", reqId |-> reqId, reqName |-> reqName, res |-> "ok", h |-> nh, id |-> newId,
              name |-> newName, polId |-> (reqId = NoId), polName |-> (reqName = NONE)]
  /\ vDeadAtk' = vDeadAtk \ {nh} /\ vGone' = Drop(vGone, nh)
  /\ UNCHANGED <<vAssets, vAssocs, vDead, vDeadAs>>
RemoveAttackerOK(th) ==
  /\ th \in LiveAtk
  /\ vAtk' = SelectSeq(vAtk, LAMBDA t : t.h # th) /\ vDeadAtk' = vDeadAtk \cup {th}
  /\ vGone' = Put(vGone, th, [id |-> AtkOf(th).id, name |-> AtkOf(th).name, ep |-> AtkOf(th).ep])
  /\ vAct' = [op |-> "RemoveAttacker", h |-> th, res |-> "ok"]
  /\ UNCHANGED <<vAssets, vAssocs, vDead, vDeadAs, vNextId, vNextH>>
RemoveAttackerRej(th) ==
  /\ th \in vDeadAtk /\ ~TwinAtk(th)
  /\ vAct' = [op |-> "RemoveAttacker", h |-> th, res |-> "exc"]
  /\ UNCHANGED <<vAssets, vAssocs, vAtk, vDead, vDeadAs, vDeadAtk, vGone, vNextId, vNextH>>
EpIdx(ep, hh) == IF \E i \in DOMAIN ep : ep[i].a = hh THEN CHOOSE i \in DOMAIN ep : ep[i].a = hh ELSE 0
AddEntryPoint(th, hh, s) ==
  /\ th \in LiveAtk /\ hh \in LiveH
  /\ vAtk' = [k \in DOMAIN vAtk |->
       IF vAtk[k].h # th THEN vAtk[k]
       ELSE LET i == EpIdx(vAtk[k].ep, hh) IN
            IF i = 0 THEN [vAtk[k] EXCEPT !.ep = Append(@, [a |-> hh, steps |-> <<s>>])]
            ELSE [vAtk[k] EXCEPT !.ep[i].steps = AppendNew(@, s)]]
  /\ vAct' = [op |-> "AddEntryPoint", h |-> th, a |-> hh, s |-> s, res |-> "ok"]
  /\ UNCHANGED <<vAssets, vAssocs, vDead, vDeadAs, vDeadAtk, vGone, vNextId, vNextH>>
RemoveEntryPoint(th, hh, s) ==          \* an asset without entry points (e.g. a removed one): nothing to remove
  /\ th \in LiveAtk
  /\ vAtk' = [k \in DOMAIN vAtk |->
       IF vAtk[k].h # th THEN vAtk[k]
       ELSE LET i == EpIdx(vAtk[k].ep, hh) IN
            IF i = 0 THEN vAtk[k]
            ELSE LET t == [vAtk[k] EXCEPT !.ep[i].steps = Without(@, s)] IN
                 [t EXCEPT !.ep = SelectSeq(@, LAMBDA e : e.steps # <<>>)]]
  /\ vAct' = [op |-> "RemoveEntryPoint", h |-> th, a |-> hh, s |-> s, res |-> "ok"]
  /\ UNCHANGED <<vAssets, vAssocs, vDead, vDeadAs, vDeadAtk, vGone, vNextId, vNextH>>

\* entry_points is a public field: direct assignment by the caller (the translators do this)
SetEntryPoints(th, ep) ==
  /\ th \in LiveAtk /\ \A i \in DOMAIN ep : ep[i].a \in LiveH
  /\ vAtk' = [k \in DOMAIN vAtk |-> IF vAtk[k].h = th THEN [vAtk[k] EXCEPT !.ep = ep] ELSE vAtk[k]]
  /\ vAct' = [op |-> "SetEntryPoints", h |-> th, res |-> "ok"]
  /\ UNCHANGED <<vAssets, vAssocs, vDead, vDeadAs, vDeadAtk, vGone, vNextId, vNextH>>

(* ------------------------------- Next ---------------------------------- *)
Members == SeqsFrom1(LiveH, MaxMembers)
\* UsePolicy = TRUE refines the free choices to the documented policy (generation mode)
NextP(UsePolicy) ==
  \/ \E T \in Types, n \in NamePool, i \in IdPool, d \in BOOLEAN :
        \/ \E ni \in (IF i # NoId THEN {i} ELSE IF UsePolicy THEN {vNextId} ELSE FreshPool) :
              \/ \E nn \in (IF ~NeedsAutoName(n) THEN {n} ELSE IF UsePolicy THEN {PolicyName(T, n, ni)} ELSE AutoNames) :
                    AddAssetOK(T, n, i, d, ni, nn, vNextH)
              \/ UsePolicy /\ AddAssetCollide(T, n, i, d, ni, vNextH)
        \/ AddAssetRej(T, n, i, d, vNextH)
  \* an asset object the caller got back is handed in again (same three outcomes)
  \/ ReAddOn /\ \E bh \in {x \in vDead : x \in DOMAIN vGone}, i \in IdPool, d \in BOOLEAN :
        \/ \E ni \in (IF i # NoId THEN {i} ELSE IF UsePolicy THEN {vNextId} ELSE FreshPool) :
              \/ \E nn \in (IF ~NeedsAutoName(vGone[bh].name) THEN {vGone[bh].name}
                             ELSE IF UsePolicy THEN {PolicyName(vGone[bh].type, vGone[bh].name, ni)} ELSE AutoNames) :
                    AddAssetOK(vGone[bh].type, vGone[bh].name, i, d, ni, nn, bh)
              \/ UsePolicy /\ AddAssetCollide(vGone[bh].type, vGone[bh].name, i, d, ni, bh)
        \/ AddAssetRej(vGone[bh].type, vGone[bh].name, i, d, bh)
  \/ \E hh \in LiveH : RemoveAssetOK(hh)
  \/ \E hh \in vDead : RemoveAssetRej(hh)
  \/ \E hh \in LiveH : \E d \in Defenses(Lng, TypeOfH(hh)), v \in DefVals : SetDefense(hh, d, v)
  \/ \E hh \in LiveH, x \in ExtrasPool : SetAssetExtras(hh, x)
  \/ \E c \in DOMAIN Lng.assocs, l \in Members, r \in Members : AddAssociation(c, l, r, vNextH)
  \/ ReAddOn /\ \E ah \in {x \in vDeadAs : x \in DOMAIN vGone} :
        /\ Range(vGone[ah].l) \cup Range(vGone[ah].r) \subseteq LiveH
        /\ AddAssociation(vGone[ah].cls, vGone[ah].l, vGone[ah].r, ah)
  \/ \E ah \in LiveAs : RemoveAssociationOK(ah)
  \/ \E ah \in vDeadAs : RemoveAssociationRej(ah)
  \/ \E hh \in LiveH \cup vDead, ah \in LiveAs \cup vDeadAs : RemoveFromAssoc(hh, ah)
  \/ \E ah \in LiveAs, x \in ExtrasPool : SetAssocExtras(ah, x)
  \/ \E i \in IdPool, n \in {NONE, "atk"} :
        \E ni \in (IF i # NoId THEN {i} ELSE IF UsePolicy THEN {vNextId} ELSE FreshPool) :
           AddAttacker(i, n, ni, IF n = NONE THEN (IF UsePolicy THEN "Attacker:" \o ToString(ni) ELSE "autoatk") ELSE n, <<>>, vNextH)
  \/ ReAddOn /\ \E th \in {x \in vDeadAtk : x \in DOMAIN vGone}, i \in IdPool :
        \E ni \in (IF i # NoId THEN {i} ELSE IF UsePolicy THEN {vNextId} ELSE FreshPool) :
           AddAttacker(i, vGone[th].name, ni, vGone[th].name, vGone[th].ep, th)
  \/ \E th \in LiveAtk : RemoveAttackerOK(th)
  \/ \E th \in vDeadAtk : RemoveAttackerRej(th)
  \/ \E th \in LiveAtk, hh \in LiveH, s \in StepPool : AddEntryPoint(th, hh, s)
  \/ \E th \in LiveAtk, hh \in LiveH \cup {x \in vDead : vGone[x].name # NONE}, s \in StepPool : RemoveEntryPoint(th, hh, s)
Next == NextP(FALSE)
Spec == Init /\ [][Next]_mvars
PolicySpec == Init /\ [][NextP(TRUE)]_mvars      \* free choices refined to the documented policy

(* ------------------- the model value seen by Sem ------------------------ *)
ModelVal == [type  |-> [hh \in LiveH |-> TypeOfH(hh)],
             def   |-> [hh \in LiveH |-> AssetOf(hh).def],
             links |-> { [cls |-> vAssocs[k].cls, l |-> Range(vAssocs[k].l), r |-> Range(vAssocs[k].r)] : k \in DOMAIN vAssocs }]
AllFields == {Lng.assocs[c].lf : c \in DOMAIN Lng.assocs} \cup {Lng.assocs[c].rf : c \in DOMAIN Lng.assocs}

(* ------ abstraction functions of the external formats (C07, C18, C19) ------ *)
IdOfH(hh) == AssetOf(hh).id
\* pairwise links: what the legacy formats (0.0.39 layout, .sCAD) and Neo4j can express
PairLinks == UNION { { [cls |-> vAssocs[k].cls, l |-> IdOfH(a), r |-> IdOfH(b)] : a \in Range(vAssocs[k].l), b \in Range(vAssocs[k].r) }
                     : k \in DOMAIN vAssocs }
EntrySteps == UNION { UNION { { [atk |-> vAtk[k].id, a |-> IdOfH(vAtk[k].ep[i].a), s |-> s] : s \in Range(vAtk[k].ep[i].steps) }
                              : i \in DOMAIN vAtk[k].ep } : k \in DOMAIN vAtk }
AbsLegacy == [ assets |-> { [id |-> vAssets[k].id, name |-> vAssets[k].name, type |-> vAssets[k].type, def |-> vAssets[k].def] : k \in DOMAIN vAssets },
               links  |-> PairLinks,
               atk    |-> { [id |-> vAtk[k].id, name |-> vAtk[k].name] : k \in DOMAIN vAtk },
               entry  |-> EntrySteps ]

\* C19: what ingesting the model sends to Neo4j: one node per asset, and for each linked pair one relationship per
\* direction labelled with the field that contains the SOURCE asset
NeoNodes == { [id |-> vAssets[k].id, name |-> vAssets[k].name, type |-> vAssets[k].type] : k \in DOMAIN vAssets }
NeoRels == UNION { UNION { { [src |-> IdOfH(a), label |-> Decl(vAssocs[k].cls).lf, dst |-> IdOfH(b)],
                             [src |-> IdOfH(b), label |-> Decl(vAssocs[k].cls).rf, dst |-> IdOfH(a)] }
                           : <<a, b>> \in Range(vAssocs[k].l) \X Range(vAssocs[k].r) } : k \in DOMAIN vAssocs }
\* reading back: every pair of opposite relationships between two nodes whose labels are the two fields of an association
TypeOfId(i) == vAssets[CHOOSE k \in DOMAIN vAssets : vAssets[k].id = i].type
NeoReadBack == { [cls |-> c, l |-> r1.src, r |-> r1.dst] : <<r1, r2, c>> \in { t \in NeoRels \X NeoRels \X DOMAIN Lng.assocs :
                     /\ t[1].src = t[2].dst /\ t[1].dst = t[2].src /\ t[1] # t[2]
                     /\ t[1].label = Decl(t[3]).lf /\ t[2].label = Decl(t[3]).rf
                     /\ IsSub(Lng, TypeOfId(t[1].src), Decl(t[3]).lt) /\ IsSub(Lng, TypeOfId(t[1].dst), Decl(t[3]).rt) } }
\* theorem (checked by TLC on every explored state): import inverts export on the links
NeoRoundTrip == NeoReadBack = PairLinks

(* --------------------- observation (projection target) ------------------ *)
Obs == [ assets |-> { [h |-> vAssets[k].h, id |-> vAssets[k].id, name |-> vAssets[k].name, type |-> vAssets[k].type,
                       def |-> vAssets[k].def, extras |-> vAssets[k].extras] : k \in DOMAIN vAssets },
         assocs |-> { [h |-> vAssocs[k].h, cls |-> vAssocs[k].cls, l |-> vAssocs[k].l, r |-> vAssocs[k].r,
                       extras |-> vAssocs[k].extras] : k \in DOMAIN vAssocs },
         nbrs   |-> { [a |-> hh, f |-> f, to |-> Nav(Lng, ModelVal, hh, f)] : hh \in LiveH, f \in AllFields },
         back   |-> { [a |-> hh, as |-> {vAssocs[k].h : k \in {j \in DOMAIN vAssocs : hh \in Range(vAssocs[j].l) \cup Range(vAssocs[j].r)}}] : hh \in LiveH },
         atk    |-> { [h |-> vAtk[k].h, id |-> vAtk[k].id, name |-> vAtk[k].name,
                       ep |-> { [a |-> vAtk[k].ep[i].a, steps |-> Range(vAtk[k].ep[i].steps)] : i \in DOMAIN vAtk[k].ep }] : k \in DOMAIN vAtk } ]

(* --------------------------- invariants (C05 / C06) --------------------- *)
UniqueIds   == \A p, q \in DOMAIN vAssets : p # q => vAssets[p].id # vAssets[q].id
UniqueNames == \A p, q \in DOMAIN vAssets : p # q => vAssets[p].name # vAssets[q].name
MembersLive == \A k \in DOMAIN vAssocs : Range(vAssocs[k].l) \cup Range(vAssocs[k].r) \subseteq LiveH
NoEmptyField == \A k \in DOMAIN vAssocs : vAssocs[k].l # <<>> /\ vAssocs[k].r # <<>>
EntryPointsLive == \A k \in DOMAIN vAtk : \A i \in DOMAIN vAtk[k].ep :
                      /\ vAtk[k].ep[i].a \in LiveH /\ vAtk[k].ep[i].steps # <<>> /\ NoRepeat(vAtk[k].ep[i].steps)
                      /\ \A j \in DOMAIN vAtk[k].ep : i # j => vAtk[k].ep[i].a # vAtk[k].ep[j].a
FieldTypesConform == \A k \in DOMAIN vAssocs :
                        /\ \A e \in Range(vAssocs[k].l) : IsSub(Lng, TypeOfH(e), Decl(vAssocs[k].cls).lt)
                        /\ \A e \in Range(vAssocs[k].r) : IsSub(Lng, TypeOfH(e), Decl(vAssocs[k].cls).rt)
MaxMultiplicity == \A k \in DOMAIN vAssocs :
                        /\ Decl(vAssocs[k].cls).lmax # -1 => Len(vAssocs[k].l) <= Decl(vAssocs[k].cls).lmax
                        /\ Decl(vAssocs[k].cls).rmax # -1 => Len(vAssocs[k].r) <= Decl(vAssocs[k].cls).rmax
NoRepeatInField == \A k \in DOMAIN vAssocs : NoRepeat(vAssocs[k].l) /\ NoRepeat(vAssocs[k].r)
LinkUnique == \A p, q \in DOMAIN vAssocs : (p # q /\ vAssocs[p].cls = vAssocs[q].cls) =>
                 ~\E a \in Range(vAssocs[p].l) \cap Range(vAssocs[q].l) : Range(vAssocs[p].r) \cap Range(vAssocs[q].r) # {}
DefenseRange == \A k \in DOMAIN vAssets : \A d \in DOMAIN vAssets[k].def : vAssets[k].def[d] >= 0 /\ vAssets[k].def[d] <= 10
DefenseDomain == \A k \in DOMAIN vAssets : DOMAIN vAssets[k].def = Defenses(Lng, vAssets[k].type)
HandlesDisjoint == /\ LiveH \cap vDead = {} /\ LiveAs \cap vDeadAs = {} /\ LiveAtk \cap vDeadAtk = {}
\* neighbours are symmetric: y is reached from x through one field iff x is reached from y through the opposite one
NbrsSymmetric == \A c \in DOMAIN Lng.assocs : \A x, y \in LiveH :
                    (y \in Nav(Lng, ModelVal, x, Decl(c).rf) /\ IsSub(Lng, TypeOfH(x), Decl(c).lt) /\ IsSub(Lng, TypeOfH(y), Decl(c).rt))
                       => x \in Nav(Lng, ModelVal, y, Decl(c).lf)
\* an operation that raises leaves the observable state unchanged
RejUnchanged == [][vAct'.res = "exc" => UNCHANGED pvars]_mvars
\* a removed asset leaves no trace: its id and its name are free again
RemovedLeavesNoTrace ==
  [][vAct'.op = "RemoveAsset" /\ vAct'.res = "ok" =>
        LET a == AssetOf(vAct'.h) IN
        /\ a.id \notin {vAssets'[k].id : k \in DOMAIN vAssets'}
        /\ a.name \notin {vAssets'[k].name : k \in DOMAIN vAssets'}
        /\ \A k \in DOMAIN vAssocs' : a.h \notin Range(vAssocs'[k].l) \cup Range(vAssocs'[k].r)
        /\ \A k \in DOMAIN vAtk' : \A i \in DOMAIN vAtk'[k].ep : vAtk'[k].ep[i].a # a.h]_mvars
RejUnchangedP == [][vAct'.res = "exc" => UNCHANGED pvars]_mvars
\* what a held object carries besides its identity matters only if it can be handed in again
GoneView == IF ReAddOn THEN vGone
            ELSE [x \in DOMAIN vGone |-> IF "cls" \in DOMAIN vGone[x] THEN [cls |-> vGone[x].cls, l |-> vGone[x].l, r |-> vGone[x].r]
                                          ELSE [id |-> vGone[x].id, name |-> vGone[x].name]]
StateView == <<vAssets, vAssocs, vAtk, vDead, vDeadAs, vDeadAtk, GoneView, vNextId, vNextH>>
=============================================================================
