-------------------------------- MODULE Sem --------------------------------
(* DYNAMIC semantics of MAL step expressions over an instance model (C01, C02). *)
(* A model value is                                                              *)
(*    M = [ type  : [AssetId -> asset type name],                                *)
(*          def   : [AssetId -> [defense name -> tenths]],                       *)
(*          links : SUBSET [cls : index into L.assocs, l : SUBSET AssetId,       *)
(*                          r : SUBSET AssetId] ]                                *)
(* For `transitive` the property only asserts closure+ <= result <= closure*,    *)
(* so every expression is evaluated to an interval [lo, hi].                     *)
EXTENDS Lang

\* assets linked to x through field f; both orientations are tested independently,
\* so a self-link is seen from both of its fields
Nav(L, M, x, f) ==
  UNION { (IF L.assocs[a.cls].rf = f /\ x \in a.l THEN a.r ELSE {}) \cup
          (IF L.assocs[a.cls].lf = f /\ x \in a.r THEN a.l ELSE {}) : a \in M.links }
NavSet(L, M, X, f) == UNION { Nav(L, M, x, f) : x \in X }
Pt(X) == [lo |-> X, hi |-> X]

RECURSIVE Ev(_,_,_,_), PlusOf(_,_,_,_,_,_)
\* closure+ of an arbitrary inner expression e starting from `frontier`
PlusOf(L, M, e, which, frontier, acc) ==
  LET r == Ev(L, M, e, frontier)
      n == (IF which = "lo" THEN r.lo ELSE r.hi) \ acc
  IN IF n = {} THEN acc ELSE PlusOf(L, M, e, which, n, acc \cup n)
Ev(L, M, e, X) ==
  CASE e.type = "attackStep"   -> Pt(X)
    [] e.type = "field"        -> Pt(NavSet(L, M, X, e.name))
    [] e.type = "collect"      -> LET a == Ev(L, M, e.lhs, X) IN
                                  [lo |-> Ev(L, M, e.rhs, a.lo).lo, hi |-> Ev(L, M, e.rhs, a.hi).hi]
    [] e.type = "union"        -> LET a == Ev(L, M, e.lhs, X) b == Ev(L, M, e.rhs, X) IN
                                  [lo |-> a.lo \cup b.lo, hi |-> a.hi \cup b.hi]
    \* an expression denotes a function of ONE source asset; on a set of sources it is the union over the sources.
    \* Field, collect, union, subtype filter and closure distribute over that union; intersection and difference do
    \* not ( a.(b - c) means "for every asset reached by a: its b minus ITS c" ), so they are evaluated pointwise
    [] e.type = "intersection" -> [lo |-> UNION { Ev(L, M, e.lhs, {x}).lo \cap Ev(L, M, e.rhs, {x}).lo : x \in X },
                                   hi |-> UNION { Ev(L, M, e.lhs, {x}).hi \cap Ev(L, M, e.rhs, {x}).hi : x \in X }]
    [] e.type = "difference"   -> [lo |-> UNION { Ev(L, M, e.lhs, {x}).lo \ Ev(L, M, e.rhs, {x}).hi : x \in X },
                                   hi |-> UNION { Ev(L, M, e.lhs, {x}).hi \ Ev(L, M, e.rhs, {x}).lo : x \in X }]
    [] e.type = "subType"      -> LET a == Ev(L, M, e.stepExpression, X) IN
                                  [lo |-> {y \in a.lo : IsSub(L, M.type[y], e.subType)},
                                   hi |-> {y \in a.hi : IsSub(L, M.type[y], e.subType)}]
    [] e.type = "variable"     -> [lo |-> UNION { Ev(L, M, VarDef(L, M.type[x], e.name), {x}).lo : x \in X },
                                   hi |-> UNION { Ev(L, M, VarDef(L, M.type[x], e.name), {x}).hi : x \in X }]
    [] e.type = "transitive"   -> [lo |-> PlusOf(L, M, e.stepExpression, "lo", X, {}),
                                   hi |-> PlusOf(L, M, e.stepExpression, "hi", X, {}) \cup X]

Assets(M) == DOMAIN M.type
StepsOfAsset(L, M, x) == Fold(L, M.type[x])

\* C01: the edge set <<x, s, y, t>>, lower and upper bound
EdgesOf(L, M, which) ==
  UNION { UNION { UNION {
      { <<x, StepsOfAsset(L, M, x)[i].name, y, ReachStep(e)>> :
          y \in (IF which = "lo" THEN Ev(L, M, e, {x}).lo ELSE Ev(L, M, e, {x}).hi) }
      : e \in Range(StepsOfAsset(L, M, x)[i].reaches.exprs) }
      : i \in DOMAIN StepsOfAsset(L, M, x) }
      : x \in Assets(M) }
EdgesLo(L, M) == EdgesOf(L, M, "lo")
EdgesHi(L, M) == EdgesOf(L, M, "hi")
HasTransitive(e) ==
  LET RECURSIVE HT(_)
      HT(z) == CASE z.type = "transitive" -> TRUE
                 [] z.type \in {"collect", "union", "intersection", "difference"} -> HT(z.lhs) \/ HT(z.rhs)
                 [] z.type = "subType" -> HT(z.stepExpression)
                 [] OTHER -> FALSE
  IN HT(e)

\* C02: existence status of an exist / notExist step: does its (first) requirement reach any asset?
\* status "T"/"F" when determined, "U" when the transitive interval leaves it open
ExistStatus(L, M, x, s) ==
  IF ~s.requires.present \/ s.requires.exprs = <<>> THEN "NONE"
  ELSE LET r == Ev(L, M, s.requires.exprs[1], {x}) IN
       IF r.lo # {} THEN "T" ELSE IF r.hi = {} THEN "F" ELSE "U"
MitreOf(s) == IF \E i \in DOMAIN s.meta : s.meta[i].k = "mitre"
              THEN s.meta[CHOOSE i \in DOMAIN s.meta : s.meta[i].k = "mitre"].v ELSE NONE
\* expected node record for asset x, folded step s
NodeRec(L, M, x, s) ==
  [asset |-> x, step |-> s.name, kind |-> s.kind, ttc |-> s.ttc, tags |-> s.tags, mitre |-> MitreOf(s),
   dstat |-> IF s.kind = "defense" THEN M.def[x][s.name] ELSE -1,
   estat |-> IF s.kind \in {"exist", "notExist"} THEN ExistStatus(L, M, x, s) ELSE NONE]
\* the node list in generation order: assets in model order, steps in folded order
NodesOf(L, M, order) ==
  Flat([k \in DOMAIN order |->
          [i \in DOMAIN StepsOfAsset(L, M, order[k]) |-> NodeRec(L, M, order[k], StepsOfAsset(L, M, order[k])[i])]])
NodeKeys(L, M) == UNION { { <<x, StepsOfAsset(L, M, x)[i].name>> : i \in DOMAIN StepsOfAsset(L, M, x) } : x \in Assets(M) }

\* operator types occurring in an expression (feature flags for coverage accounting and classification)
RECURSIVE OpsOf(_)
OpsOf(e) == CASE e.type \in {"collect", "union", "intersection", "difference"} -> {e.type} \cup OpsOf(e.lhs) \cup OpsOf(e.rhs)
              [] e.type \in {"transitive", "subType"} -> {e.type} \cup OpsOf(e.stepExpression)
              [] OTHER -> {e.type}
StepOps(s) == UNION { OpsOf(s.reaches.exprs[k]) : k \in DOMAIN s.reaches.exprs } \cup
              UNION { OpsOf(s.requires.exprs[k]) : k \in DOMAIN s.requires.exprs }
ModelFeatures(M) == (IF \E a \in M.links : a.l \cap a.r # {} THEN {"self_link"} ELSE {})
               \cup (IF \E a \in M.links : Cardinality(a.l) > 1 \/ Cardinality(a.r) > 1 THEN {"multi_member"} ELSE {})
               \cup (IF \E a, b \in M.links : a # b /\ a.l \cap b.r # {} /\ a.r \cap b.l # {} THEN {"two_cycle"} ELSE {})
\* what a generated attack graph must look like (C01, C02)
GraphExp(L, M, order) ==
  [ nodes |-> [k \in DOMAIN NodesOf(L, M, order) |->
                 LET n == NodesOf(L, M, order)[k] IN
                 [asset |-> n.asset, step |-> n.step, kind |-> n.kind, ttc |-> n.ttc, tags |-> n.tags,
                  mitre |-> n.mitre, dstat |-> n.dstat, estat |-> n.estat,
                  ops |-> StepOps(FoldedStep(L, M.type[n.asset], n.step))]],
    lo |-> EdgesLo(L, M), hi |-> EdgesHi(L, M), feats |-> ModelFeatures(M) ]

\* spec-level sanity (checked by TLC over every explored pair)
EdgesWellFormed(L, M) ==
  /\ EdgesLo(L, M) \subseteq EdgesHi(L, M)
  /\ \A ed \in EdgesHi(L, M) : <<ed[1], ed[2]>> \in NodeKeys(L, M) /\ ed[3] \in Assets(M)
=============================================================================
