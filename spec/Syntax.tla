-------------------------------- MODULE Syntax --------------------------------
(* A nondeterministic recursive-descent RECOGNISER of maltoolbox's grammar        *)
(* (language/compiler/mal.g4) over a sequence of token kinds, and the single-token *)
(* MUTATIONS of a token sequence (C17).  Every non-terminal X is an operator       *)
(* X(S): set of start positions -> set of end positions.                           *)
EXTENDS Integers, Sequences, FiniteSets
VARIABLE toks      \* Seq(token kind); substituted by the instantiating module

T(k, S)   == {j + 1 : j \in {p \in S : p <= Len(toks) /\ toks[p] = k}}
TT(ks, S) == {j + 1 : j \in {p \in S : p <= Len(toks) /\ toks[p] \in ks}}
Opt(S, X) == S \cup X

RECURSIVE Expr(_), Parts(_), Part(_), SetopParts(_), DotParts(_), Types(_)
RECURSIVE TtcExpr(_), TtcTerm(_), TtcFact(_), TtcAtom(_), TtcTermTail(_), TtcFactTail(_), NumTail(_)
Type1(S) == T("RSQUARE", T("ID", T("LSQUARE", S)))
Types(S) == LET n == Type1(S) \ S IN IF n = {} THEN S ELSE Types(S \cup n)
PartHead(S) == T("RPAREN", Expr(T("LPAREN", S))) \cup T("RPAREN", T("LPAREN", T("ID", S))) \cup T("ID", S)
Part(S) == LET h == PartHead(S) IN Types(h \cup T("STAR", h))
DotParts(S) == LET n == Part(T("DOT", S)) \ S IN IF n = {} THEN S ELSE DotParts(S \cup n)
Parts(S) == DotParts(Part(S))
SetopParts(S) == LET n == Parts(TT({"UNION", "INTERSECT", "MINUS"}, S)) \ S IN IF n = {} THEN S ELSE SetopParts(S \cup n)
Expr(S) == IF S = {} THEN {} ELSE SetopParts(Parts(S))
RECURSIVE CommaExprs(_)
CommaExprs(S) == LET n == Expr(T("COMMA", S)) \ S IN IF n = {} THEN S ELSE CommaExprs(S \cup n)
ExprList(S) == CommaExprs(Expr(S))

Number(S) == TT({"INT", "FLOAT"}, S)
NumTail(S) == LET n == Number(T("COMMA", S)) \ S IN IF n = {} THEN S ELSE NumTail(S \cup n)
TtcDist(S) == LET i == T("ID", S) lp == T("LPAREN", i) IN i \cup T("RPAREN", lp \cup NumTail(Number(lp)))
TtcAtom(S) == IF S = {} THEN {} ELSE TtcDist(S) \cup T("RPAREN", TtcExpr(T("LPAREN", S))) \cup Number(S)
TtcFact(S) == LET a == TtcAtom(S) IN a \cup TtcAtom(T("POWER", a))
TtcFactTail(S) == LET n == TtcFact(TT({"STAR", "DIVIDE"}, S)) \ S IN IF n = {} THEN S ELSE TtcFactTail(S \cup n)
TtcTerm(S) == TtcFactTail(TtcFact(S))
TtcTermTail(S) == LET n == TtcTerm(TT({"PLUS", "MINUS"}, S)) \ S IN IF n = {} THEN S ELSE TtcTermTail(S \cup n)
TtcExpr(S) == IF S = {} THEN {} ELSE TtcTermTail(TtcTerm(S))
Ttc(S) == T("RSQUARE", TtcExpr(T("LSQUARE", S)))

Meta1(S) == T("STRING", T("COLON", T("INFO", T("ID", S))))
RECURSIVE Metas(_)
Metas(S) == LET n == Meta1(S) \ S IN IF n = {} THEN S ELSE Metas(S \cup n)
RECURSIVE Tags(_)
Tags(S) == LET n == T("ID", T("AT", S)) \ S IN IF n = {} THEN S ELSE Tags(S \cup n)
Cia(S) == TT({"C", "I", "A"}, S)
RECURSIVE CiaTail(_)
CiaTail(S) == LET n == Cia(T("COMMA", S)) \ S IN IF n = {} THEN S ELSE CiaTail(S \cup n)
Cias(S) == T("RCURLY", CiaTail(Cia(T("LCURLY", S))))
Step(S) == LET a == Tags(T("ID", TT({"AND", "OR", "HASH", "EXISTS", "NOTEXISTS"}, S)))
               b == Opt(a, Cias(a))
               c == Opt(b, Ttc(b))
               d == Metas(c)
               e == Opt(d, ExprList(T("REQUIRES", d)))
           IN Opt(e, ExprList(TT({"INHERITS", "LEADSTO"}, e)))
Variable(S) == Expr(T("ASSIGN", T("ID", T("LET", S))))
RECURSIVE Body(_)
Body(S) == LET n == (Step(S) \cup Variable(S)) \ S IN IF n = {} THEN S ELSE Body(S \cup n)
Asset(S) == LET a == T("ID", T("ASSET", Opt(S, T("ABSTRACT", S))))
                b == Opt(a, T("ID", T("EXTENDS", a)))
            IN T("RCURLY", Body(T("LCURLY", Metas(b))))
RECURSIVE Assets(_)
Assets(S) == LET n == Asset(S) \ S IN IF n = {} THEN S ELSE Assets(S \cup n)
Category(S) == T("RCURLY", Assets(T("LCURLY", Metas(T("ID", T("CATEGORY", S))))))
Field(S) == T("RSQUARE", T("ID", T("LSQUARE", S)))
MultAtom(S) == TT({"INT", "STAR"}, S)
Mult(S) == LET a == MultAtom(S) IN a \cup MultAtom(T("RANGE", a))
Association(S) == Metas(T("ID", Field(Mult(T("RARROW", T("ID", T("LARROW", Mult(Field(T("ID", S))))))))))
RECURSIVE AssocList(_)
AssocList(S) == LET n == Association(S) \ S IN IF n = {} THEN S ELSE AssocList(S \cup n)
Associations(S) == T("RCURLY", AssocList(T("LCURLY", T("ASSOCIATIONS", S))))
Declaration(S) == T("STRING", T("INCLUDE", S)) \cup T("STRING", T("COLON", T("ID", T("HASH", S)))) \cup Category(S) \cup Associations(S)
DeclStart == {"INCLUDE", "HASH", "CATEGORY", "ASSOCIATIONS"}
\* the start rule is  mal: declaration+ | EOF  WITHOUT a trailing EOF: the parser consumes declarations greedily and
\* stops quietly at the first token that cannot begin a declaration
RECURSIVE Greedy(_)
Greedy(p) == IF p > Len(toks) \/ toks[p] \notin DeclStart THEN p
             ELSE LET e == Declaration({p}) IN IF e = {} THEN 0 ELSE Greedy(CHOOSE q \in e : \A r \in e : q >= r)
AcceptsLikeParser == toks = <<>> \/ (toks[1] \in DeclStart /\ Greedy(1) # 0)
=============================================================================
