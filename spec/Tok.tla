--------------------------------- MODULE Tok ---------------------------------
(* Concrete syntax of a language record (C04): token sequences with MINIMAL    *)
(* parenthesisation.  Step expressions: the three set operators (lowest, left  *)
(* associative) < collect '.' (left associative) < postfix '*' and '[T]'.       *)
(* TTC: + - (left assoc) < * / (left assoc) < ^ (operands atomic).              *)
(* A token is [k |-> kind, v |-> text]; the harness renders kinds with a fixed  *)
(* table and joins with blanks - no other printing logic exists outside.        *)
EXTENDS Lang
K(k) == [k |-> k, v |-> ""]
KV(k, v) == [k |-> k, v |-> v]

Prec(e) == CASE e.type \in {"union", "intersection", "difference"} -> 1
             [] e.type = "collect" -> 2
             [] e.type \in {"transitive", "subType"} -> 3
             [] OTHER -> 4
OpTok(t) == CASE t = "union" -> K("UNION") [] t = "intersection" -> K("INTERSECT") [] t = "difference" -> K("MINUS")
RECURSIVE TE(_,_)
TE(e, min) ==
  IF Prec(e) < min THEN <<K("LPAREN")>> \o TE(e, 1) \o <<K("RPAREN")>>
  ELSE CASE e.type \in {"union", "intersection", "difference"} -> TE(e.lhs, 1) \o <<OpTok(e.type)>> \o TE(e.rhs, 2)
         [] e.type = "collect"    -> TE(e.lhs, 2) \o <<K("DOT")>> \o TE(e.rhs, 3)
         [] e.type = "transitive" -> TE(e.stepExpression, 4) \o <<K("STAR")>>
         [] e.type = "subType"    -> TE(e.stepExpression, 3) \o <<K("LSQUARE"), KV("ID", e.subType), K("RSQUARE")>>
         [] e.type = "variable"   -> <<KV("ID", e.name), K("LPAREN"), K("RPAREN")>>
         [] OTHER                 -> <<KV("ID", e.name)>>          \* field, attackStep
\* a transitive below a subType prints as  x*[T] ; a subType below a transitive needs parentheses: (x[T])*
\* (postfix '*' must come before the '[T]' suffixes of the same part)
MapTE(es) == [i \in DOMAIN es |-> TE(es[i], 1)]

TPrec(t) == CASE t.type \in {"addition", "subtraction"} -> 1
              [] t.type \in {"multiplication", "division"} -> 2
              [] t.type = "exponentiation" -> 3
              [] OTHER -> 4
TOpTok(t) == CASE t = "addition" -> K("PLUS") [] t = "subtraction" -> K("MINUS") [] t = "multiplication" -> K("STAR")
               [] t = "division" -> K("DIVIDE") [] t = "exponentiation" -> K("POWER")
NumTok(v10) == KV("NUM10", ToString(v10))     \* rendered as v10/10 with one decimal
RECURSIVE TT(_,_)
TT(t, min) ==
  IF TPrec(t) < min THEN <<K("LPAREN")>> \o TT(t, 1) \o <<K("RPAREN")>>
  ELSE CASE t.type \in {"addition", "subtraction"}    -> TT(t.lhs, 1) \o <<TOpTok(t.type)>> \o TT(t.rhs, 2)
         [] t.type \in {"multiplication", "division"} -> TT(t.lhs, 2) \o <<TOpTok(t.type)>> \o TT(t.rhs, 3)
         [] t.type = "exponentiation"                 -> TT(t.lhs, 4) \o <<TOpTok(t.type)>> \o TT(t.rhs, 4)
         [] t.type = "number"                         -> <<IF "text" \in DOMAIN t THEN KV("FLOAT", t.text) ELSE NumTok(t.value10)>>
         [] OTHER -> <<KV("ID", t.name)>> \o
                     (IF t.arguments = <<>> THEN <<>> ELSE
                        <<K("LPAREN")>> \o SepBy([i \in DOMAIN t.arguments |->
                                                   <<IF "astext" \in DOMAIN t THEN KV("FLOAT", t.arguments[i]) ELSE NumTok(t.arguments[i])>>],
                                                 <<K("COMMA")>>) \o <<K("RPAREN")>>)

MetaToks(ms) == Flat([i \in DOMAIN ms |-> <<KV("ID", ms[i].k), K("INFO"), K("COLON"), KV("STRING", ms[i].v)>>])
KindTok(k) == CASE k = "or" -> K("OR") [] k = "and" -> K("AND") [] k = "defense" -> K("HASH")
                [] k = "exist" -> K("EXISTS") [] k = "notExist" -> K("NOTEXISTS")
CiaToks(r) == IF ~r.present THEN <<>> ELSE
  <<K("LCURLY")>> \o SepBy((IF r.c THEN << <<K("C")>> >> ELSE <<>>) \o (IF r.i THEN << <<K("I")>> >> ELSE <<>>) \o (IF r.a THEN << <<K("A")>> >> ELSE <<>>), <<K("COMMA")>>) \o <<K("RCURLY")>>
StepToks(s) ==
  <<KindTok(s.kind), KV("ID", s.name)>>
  \o Flat([i \in DOMAIN s.tags |-> <<K("AT"), KV("ID", s.tags[i])>>])
  \o CiaToks(s.risk)
  \o (IF s.ttc.type = "none" THEN <<>> ELSE <<K("LSQUARE")>> \o TT(s.ttc, 1) \o <<K("RSQUARE")>>)
  \o MetaToks(s.meta)
  \o (IF ~s.requires.present THEN <<>> ELSE <<K("REQUIRES")>> \o SepBy(MapTE(s.requires.exprs), <<K("COMMA")>>))
  \o (IF ~s.reaches.present THEN <<>> ELSE <<IF s.reaches.overrides THEN K("LEADSTO") ELSE K("INHERITS")>> \o SepBy(MapTE(s.reaches.exprs), <<K("COMMA")>>))
VarToks(v) == <<K("LET"), KV("ID", v.name), K("ASSIGN")>> \o TE(v.expr, 1)
AssetToks(a) ==
  (IF a.abstract THEN <<K("ABSTRACT")>> ELSE <<>>) \o <<K("ASSET"), KV("ID", a.name)>>
  \o (IF a.super = NONE THEN <<>> ELSE <<K("EXTENDS"), KV("ID", a.super)>>)
  \o MetaToks(a.meta) \o <<K("LCURLY")>>
  \o Flat([i \in DOMAIN a.vars |-> VarToks(a.vars[i])])
  \o Flat([i \in DOMAIN a.steps |-> StepToks(a.steps[i])])
  \o <<K("RCURLY")>>
MultToks(mn, mx) == IF mx = -1 THEN (IF mn = 0 THEN <<K("STAR")>> ELSE <<KV("INT", ToString(mn)), K("RANGE"), K("STAR")>>)
                    ELSE IF mn = mx THEN <<KV("INT", ToString(mn))>> ELSE <<KV("INT", ToString(mn)), K("RANGE"), KV("INT", ToString(mx))>>
AssocToks(a) == <<KV("ID", a.lt), K("LSQUARE"), KV("ID", a.lf), K("RSQUARE")>> \o MultToks(a.lmin, a.lmax)
                \o <<K("LARROW"), KV("ID", a.name), K("RARROW")>> \o MultToks(a.rmin, a.rmax)
                \o <<K("LSQUARE"), KV("ID", a.rf), K("RSQUARE"), KV("ID", a.rt)>> \o MetaToks(a.meta)
CatToks(L, c) == <<K("CATEGORY"), KV("ID", c.name)>> \o MetaToks(c.meta) \o <<K("LCURLY")>>
                 \o Flat([i \in DOMAIN L.assets |-> IF L.assets[i].category = c.name THEN AssetToks(L.assets[i]) ELSE <<>>])
                 \o <<K("RCURLY")>>
DefineToks(L) == <<K("HASH"), KV("ID", "id"), K("COLON"), KV("STRING", L.id), K("HASH"), KV("ID", "version"), K("COLON"), KV("STRING", L.version)>>
AssocBlock(as) == <<K("ASSOCIATIONS"), K("LCURLY")>> \o Flat([i \in DOMAIN as |-> AssocToks(as[i])]) \o <<K("RCURLY")>>
\* top-level declarations of a language, in order: defines, one block per category, the associations block
Decls(L) == <<DefineToks(L)>> \o [i \in DOMAIN L.categories |-> CatToks(L, L.categories[i])] \o <<AssocBlock(L.assocs)>>
LangToks(L) == Flat(Decls(L))
Include(f) == <<K("INCLUDE"), KV("STRING", f)>>
\* distribution of the declarations over included files; every layout denotes the same language
Files(L, layout) ==
  LET d == Decls(L) n == Len(d) rest == SubSeq(d, 2, n) half == (n - 1) \div 2
      partA == Flat(SubSeq(rest, 1, half)) partB == Flat(SubSeq(rest, half + 1, n - 1)) IN
  CASE layout = "single" -> << [name |-> "main.mal", toks |-> LangToks(L)] >>
    [] layout = "star"   -> << [name |-> "main.mal", toks |-> d[1] \o Include("a.mal") \o Include("b.mal")],
                               [name |-> "a.mal", toks |-> partA], [name |-> "b.mal", toks |-> partB] >>
    [] layout = "chain"  -> << [name |-> "main.mal", toks |-> Include("a.mal") \o d[1]],
                               [name |-> "a.mal", toks |-> partA \o Include("b.mal")], [name |-> "b.mal", toks |-> partB] >>
    [] layout = "middle" -> << [name |-> "main.mal", toks |-> d[1] \o partA \o Include("b.mal")],
                               [name |-> "b.mal", toks |-> partB] >>
    [] layout = "repeat" -> << [name |-> "main.mal", toks |-> d[1] \o Include("a.mal") \o partB \o Include("a.mal")],
                               [name |-> "a.mal", toks |-> partA] >>
    [] layout = "subdir" -> << [name |-> "main.mal", toks |-> d[1] \o Include("sub/a.mal") \o partB],
                               [name |-> "sub/a.mal", toks |-> partA] >>
    \* two DIFFERENT files reached through the same relative name from different directories
    [] layout = "samename" -> << [name |-> "main.mal", toks |-> d[1] \o Include("x/p.mal") \o Include("y/p.mal")],
                                 [name |-> "x/p.mal", toks |-> Include("a.mal")], [name |-> "x/a.mal", toks |-> partA],
                                 [name |-> "y/p.mal", toks |-> Include("a.mal")], [name |-> "y/a.mal", toks |-> partB] >>
    \* the SAME file reached through two spellings of its path ("a.mal" from the root, "../a.mal" from a sub-directory)
    [] layout = "dotdot" -> << [name |-> "main.mal", toks |-> d[1] \o Include("a.mal") \o Include("sub/b.mal")],
                               [name |-> "a.mal", toks |-> partA],
                               [name |-> "sub/b.mal", toks |-> Include("../a.mal") \o partB] >>
    \* one file, no include: every asset opens its category in a block of its own (the same category several times)
    [] layout = "splitcat" -> << [name |-> "main.mal", toks |-> DefineToks(L)
                                    \o Flat([i \in DOMAIN L.assets |->
                                              LET c == CHOOSE c \in Range(L.categories) : c.name = L.assets[i].category IN
                                              <<K("CATEGORY"), KV("ID", c.name)>> \o MetaToks(c.meta) \o <<K("LCURLY")>>
                                                \o AssetToks(L.assets[i]) \o <<K("RCURLY")>>])
                                    \o AssocBlock(L.assocs)] >>
Layouts == {"single", "star", "chain", "middle", "repeat", "subdir", "samename", "dotdot", "splitcat"}
=============================================================================
