SPECIFICATION TGSpec
CONSTANTS
  Lng <- LngDummy
  NamePool = {}
  IdPool = {}
  FreshPool = {}
  AutoNames = {}
  DefVals = {}
  StepPool = {}
  ExtrasPool = {}
  MaxAssets = 0
  MaxAssocs = 0
  MaxAtk = 0
  MaxH = 0
  MaxMembers = 0
  MaxNodes = 100000
  ExtraKinds = {}
  GIdPool = {}
  GMaxAtk = 0
  GOpsOn = {}
INVARIANT Progress
INVARIANT TraceConsistent
CHECK_DEADLOCK FALSE
