----------------------------- MODULE Trace_Graph -----------------------------
(* Code -> spec for the attack graph: traces recorded from real AttackGraph      *)
(* objects (one trace per object) are checked against the GraphSM actions.        *)
(* A trace starts with an Install event carrying the full logged state of the     *)
(* object when the tracer first saw it (after generation, loading or copying);    *)
(* every later event must be explained by the GraphSM effect operator of the call *)
(* it names, with the projection the tracer took after the call equal to the      *)
(* specification's successor state; lookups are probed for every id seen so far.  *)
EXTENDS GraphSM, Json, IOUtils
EnvOr(k, d) == IF k \in DOMAIN IOEnv THEN IOEnv[k] ELSE d
Traces == JsonDeserialize(IOEnv.VERIF_TRACES)
LngDummy == [id |-> "none", version |-> "0", categories |-> <<>>, assets |-> <<>>, assocs |-> <<>>]
VARIABLES tid, pos
tgvars == <<mvars, gS, gAct, gNextH, tid, pos>>
CurEv == Traces[tid].events[pos]
S0 == gS["main"]

TGInit == /\ Init /\ gS = [g \in Slots |-> EmptySlot] /\ gAct = [op |-> "Init", res |-> "ok"] /\ gNextH = 0
          /\ tid = 0 /\ pos = 0
Choose == /\ tid = 0 /\ \E t \in DOMAIN Traces : tid' = t
          /\ pos' = 1 /\ UNCHANGED <<mvars, gS, gAct, gNextH>>

NodeFromLog(n) == [h |-> n.h, asset |-> n.asset, step |-> n.step, kind |-> n.kind, st |-> n.st, dist |-> n.dist,
                   ttc |-> 0, tags |-> {}, extras |-> 0, id |-> n.id, V |-> n.V, N |-> n.N]
Pairs(ps) == {<<ps[i][1], ps[i][2]>> : i \in DOMAIN ps}
\* the slot described by a logged projection (indexes as the lookups answered them)
SlotFromObs(o) ==
  [EmptySlot EXCEPT !.nodes = [k \in DOMAIN o.nodes |-> NodeFromLog(o.nodes[k])],
                    !.ch = Pairs(o.ch), !.pa = Pairs(o.pa),
                    !.byId = {<<o.nodes[k].id, o.nodes[k].h>> : k \in DOMAIN o.nodes},
                    !.byName = {<<NameOf(NodeFromLog(o.nodes[k])), o.nodes[k].h>> : k \in DOMAIN o.nodes},
                    !.nextId = o.nextId,
                    !.atk = [k \in DOMAIN o.atk |-> [h |-> o.atk[k].h, id |-> o.atk[k].id, name |-> o.atk[k].name]],
                    !.atkById = {<<o.atk[k].id, o.atk[k].h>> : k \in DOMAIN o.atk}, !.nextAtk = o.nextAtk,
                    !.reached = Pairs(o.reached), !.entry = Pairs(o.entry), !.compBy = Pairs(o.compBy),
                    !.exists = TRUE, !.hasModel = o.hasModel, !.hasLang = o.hasLang]
\* what the logged projection must agree with (list order and the data the projection does not carry are ignored)
Core(s) == [nodes |-> {[h |-> s.nodes[k].h, id |-> s.nodes[k].id, kind |-> s.nodes[k].kind, V |-> s.nodes[k].V, N |-> s.nodes[k].N] : k \in DOMAIN s.nodes},
            ch |-> s.ch, pa |-> s.pa, atk |-> {[h |-> s.atk[k].h, id |-> s.atk[k].id] : k \in DOMAIN s.atk},
            reached |-> s.reached, entry |-> s.entry, compBy |-> s.compBy]
ObsOK(o, s) ==
  /\ Core(SlotFromObs(o)) = Core(s)
  \* lookups answered exactly what the specification's indexes hold, for every id probed
  /\ \A i \in DOMAIN o.idprobe : LET q == o.idprobe[i] IN
        (q[2] = 0 /\ ~\E p \in s.byId : p[1] = q[1]) \/ (<<q[1], q[2]>> \in s.byId)
  /\ \A i \in DOMAIN o.atkprobe : LET q == o.atkprobe[i] IN
        (q[2] = 0 /\ ~\E p \in s.atkById : p[1] = q[1]) \/ (<<q[1], q[2]>> \in s.atkById)

RECURSIVE AddAll(_,_,_)
AddAll(s, as, k) == IF k > Len(as) THEN s
                    ELSE AddAll(DoAddAttacker(s, as[k].h, as[k].id, as[k].name, Range(as[k].entry), Range(as[k].reached)), as, k + 1)
Eff(e) ==
  CASE e.op = "Install"        -> SlotFromObs(e.obs)
    [] e.op = "AttachAttackers" -> AddAll(S0, e.atks, 1)
    [] e.op = "AddNode"        -> DoAddNode(S0, e.h, e.kind, e.id)
    [] e.op = "RemoveNode"     -> DoRemove(S0, {e.h})
    [] e.op = "Prune"          -> DoRemove(S0, Prunable(S0))
    [] e.op = "Analyse"        -> DoAnalyse(S0)
    [] e.op = "AddGAttacker"   -> DoAddAttacker(S0, e.h, e.id, e.name, Range(e.entry), Range(e.reached))
    [] e.op = "RemoveGAttacker" -> DoRemoveAttacker(S0, e.h)
    [] e.op = "Compromise"     -> DoCompromise(S0, e.a, e.h)
    [] e.op = "Undo"           -> DoUndo(S0, e.a, e.h)
    [] OTHER -> S0
\* events outside the domain GraphSM specifies for trace validation
OutOfDomain(e) ==
  \/ e.op = "Other"
  \* a graph assembled by hand (fields written directly) that is not consistent to begin with: nothing to say about it
  \/ e.op = "Install" /\ ~(SlotOK(SlotFromObs(e.obs)) /\ ObsOK(e.obs, SlotFromObs(e.obs)))
  \/ e.op = "AddNode" /\ e.preset                 \* a node that already carries edges or compromise marks
  \/ e.op = "AttachAttackers" /\ \E k \in DOMAIN e.atks : e.atks[k].h \in AtkHs(S0) \/ e.atks[k].id \in GAtkIds(S0)
  \/ e.op = "AddNode" /\ (e.h \in NodeHs(S0) \/ e.id \in NodeIds(S0))
  \/ e.op = "RemoveNode" /\ e.h \notin NodeHs(S0)
  \/ e.op = "AddGAttacker" /\ (e.h \in AtkHs(S0) \/ e.id \in GAtkIds(S0) \/ ~(Range(e.entry) \cup Range(e.reached) \subseteq NodeHs(S0)))
  \/ e.op = "RemoveGAttacker" /\ e.h \notin AtkHs(S0)
  \/ e.op \in {"Compromise", "Undo"} /\ (e.a \notin AtkHs(S0) \/ e.h \notin NodeHs(S0))
  \/ e.op = "Analyse" /\ \E k \in DOMAIN S0.nodes : ~S0.nodes[k].V \/ ~S0.nodes[k].N
  \/ e.op = "Analyse" /\ \E k \in DOMAIN S0.nodes : S0.nodes[k].kind \in {"defense", "exist", "notExist"} /\ S0.nodes[k].st = -1
Step == /\ tid > 0 /\ pos > 0 /\ pos <= Len(Traces[tid].events)
        /\ ~OutOfDomain(CurEv)
        /\ CurEv.res = "ok"                        \* a call inside the specified domain does not raise
        /\ gS' = [gS EXCEPT !["main"] = Eff(CurEv)]
        /\ ObsOK(CurEv.obs, gS'["main"])
        /\ gAct' = [op |-> CurEv.op, g |-> "main", res |-> "ok"]
        /\ pos' = pos + 1 /\ UNCHANGED <<mvars, tid, gNextH>>
TGNext == Choose \/ Step
TGSpec == TGInit /\ [][TGNext]_tgvars
Ood == tid > 0 /\ pos > 0 /\ pos <= Len(Traces[tid].events) /\ OutOfDomain(CurEv)
Progress == tid > 0 => PrintT(ToJson([kind |-> "pos", tid |-> Traces[tid].id, pos |-> pos, len |-> Len(Traces[tid].events), ood |-> Ood]))
\* the GraphSM invariants along every accepted prefix
TraceConsistent == SlotOK(gS["main"])
==============================================================================
