SPECIFICATION TraceSpec
CONSTANTS
  Lng <- LngDef
  NamePool = {}
  IdPool = {}
  FreshPool = {}
  AutoNames = {}
  DefVals = {}
  StepPool = {}
  ExtrasPool = {}
  MaxAssets = 1000
  MaxAssocs = 1000
  MaxAtk = 1000
  MaxH = 1000000
  MaxMembers = 0
INVARIANT Progress
INVARIANT UniqueIds
INVARIANT UniqueNames
INVARIANT MembersLive
INVARIANT NoEmptyField
INVARIANT EntryPointsLive
INVARIANT LinkUnique
CHECK_DEADLOCK FALSE
