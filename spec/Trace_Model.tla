----------------------------- MODULE Trace_Model -----------------------------
(* Code -> spec: traces recorded from the real Model (or stored action         *)
(* sequences of the regression corpus) are checked against ModelSM.  One TLC   *)
(* run validates a whole batch: the trace is chosen in the first step, every   *)
(* event must be explained by the ModelSM action it names with the logged      *)
(* arguments, and - when the event carries the projection the tracer took      *)
(* after the call - the successor state must equal it.  A trace is accepted    *)
(* when it is consumed to its end, or up to an event that is outside the       *)
(* specified domain (inconclusive from there on, never a rejection).           *)
EXTENDS ModelSM, Json, IOUtils
EnvOr(k, d) == IF k \in DOMAIN IOEnv THEN IOEnv[k] ELSE d
LngDef == JsonDeserialize(IOEnv.VERIF_LANGFILE)
Traces == JsonDeserialize(IOEnv.VERIF_TRACES)          \* Seq([id, events : Seq(event)])
EmitObs == EnvOr("VERIF_EMIT", "0") = "1"
VARIABLES tid, pos, hist
tvars == <<mvars, tid, pos, hist>>
CurEv == Traces[tid].events[pos]
HasObs(e) == "obs" \in DOMAIN e

TraceInit == Init /\ tid = 0 /\ pos = 0 /\ hist = <<>>
Choose == /\ tid = 0 /\ \E t \in DOMAIN Traces : tid' = t
          /\ pos' = 1 /\ UNCHANGED <<mvars, hist>>

\* the logged projection must equal the specification's successor state
ObsMatches(o) ==
  /\ { [h |-> a.h, id |-> a.id, name |-> a.name, type |-> a.type] : a \in Range(o.assets) }
       = { [h |-> vAssets'[k].h, id |-> vAssets'[k].id, name |-> vAssets'[k].name, type |-> vAssets'[k].type] : k \in DOMAIN vAssets' }
  /\ { [h |-> a.h, cls |-> a.cls, l |-> Range(a.l), r |-> Range(a.r)] : a \in Range(o.assocs) }
       = { [h |-> vAssocs'[k].h, cls |-> vAssocs'[k].cls, l |-> Range(vAssocs'[k].l), r |-> Range(vAssocs'[k].r)] : k \in DOMAIN vAssocs' }
  /\ { [h |-> t.h, id |-> t.id, name |-> t.name, ep |-> { [a |-> p.a, steps |-> Range(p.steps)] : p \in Range(t.ep) }] : t \in Range(o.atk) }
       = { [h |-> vAtk'[k].h, id |-> vAtk'[k].id, name |-> vAtk'[k].name,
            ep |-> { [a |-> vAtk'[k].ep[i].a, steps |-> Range(vAtk'[k].ep[i].steps)] : i \in DOMAIN vAtk'[k].ep }] : k \in DOMAIN vAtk' }

\* events outside the domain ModelSM specifies (never a rejection)
OutOfDomain(e) ==
  \* an object this model already knows: specified only when it is one the caller got back and did not alter meanwhile
  \/ e.op = "AddAsset" /\ e.h \in Known /\ ~(IsBackAsset(e.h) /\ vGone[e.h].type = e.T /\ vGone[e.h].name = e.reqName)
  \/ e.op = "AddAssociation" /\ e.h \in Known /\ ~(IsBackAssoc(e.h) /\ vGone[e.h].cls = e.cls /\ vGone[e.h].l = e.l /\ vGone[e.h].r = e.r)
  \/ e.op = "AddAttacker" /\ e.h \in Known /\ ~(IsBackAtk(e.h) /\ vGone[e.h].name = e.reqName /\ vGone[e.h].ep = e.ep)
  \/ e.op = "AddAssociation" /\ (Range(e.l) \cup Range(e.r)) \ LiveH # {}            \* members that are not in the model
  \/ e.op = "AddAssociation" /\ (e.l = <<>> \/ e.r = <<>>)
  \/ e.op = "AddAttacker" /\ e.reqId # NoId /\ e.reqId \in AtkIds
  \/ e.op = "AddAttacker" /\ \E i \in DOMAIN e.ep : e.ep[i].a \notin LiveH
  \* a foreign object (never seen by this model) that the code accepts can only be a value twin
  \/ e.op = "RemoveAsset" /\ ((e.h \notin Known /\ e.res = "ok") \/ TwinAsset(e.h))
  \/ e.op = "RemoveAssociation" /\ ((e.h \notin Known /\ e.res = "ok") \/ TwinAssoc(e.h))
  \/ e.op = "RemoveFromAssoc" /\ (((e.h \notin Known \/ e.ah \notin Known) /\ e.res = "ok") \/ TwinAsset(e.h) \/ TwinAssoc(e.ah))
  \/ e.op = "RemoveAttacker" /\ ((e.h \notin Known /\ e.res = "ok") \/ TwinAtk(e.h))
  \/ e.op = "AddEntryPoint" /\ (e.h \notin LiveAtk \/ e.a \notin LiveH)
  \/ e.op = "RemoveEntryPoint" /\ (e.h \notin LiveAtk \/ e.res # "ok")
  \/ e.op = "RemoveEntryPoint" /\ e.a \notin LiveH /\ ~(e.a \in DOMAIN vGone /\ vGone[e.a].name # NONE)   \* an object that never had a name
  \/ e.op = "SetEntryPoints" /\ (e.h \notin LiveAtk \/ \E i \in DOMAIN e.ep : e.ep[i].a \notin LiveH)
  \/ e.op \in {"SetDefense", "SetAssetExtras"} /\ e.h \notin LiveH
  \/ e.op = "SetDefense" /\ e.h \in LiveH /\ e.d \notin Defenses(Lng, TypeOfH(e.h))
  \/ e.op = "SetAssocExtras" /\ e.h \notin LiveAs
  \/ e.op = "Other"

\* removing an object this model has never held is rejected and changes nothing
ForeignRej(e) ==
  /\ e.res = "exc"
  /\ \/ e.op \in {"RemoveAsset", "RemoveAssociation", "RemoveAttacker"} /\ e.h \notin Known
     \/ e.op = "RemoveFromAssoc" /\ (e.h \notin Known \/ e.ah \notin Known)
  /\ vAct' = [op |-> e.op, res |-> "exc"]
  /\ UNCHANGED <<vAssets, vAssocs, vAtk, vDead, vDeadAs, vDeadAtk, vGone, vNextId, vNextH>>
Explained(e) ==
  \/ ForeignRej(e)
  \/ /\ e.op = "AddAsset" /\ e.res = "ok" /\ AddAssetOK(e.T, e.reqName, e.reqId, e.allowDup, e.id, e.name, e.h)
  \/ /\ e.op = "AddAsset" /\ e.res = "exc" /\ AddAssetRej(e.T, e.reqName, e.reqId, e.allowDup, e.h)
  \/ /\ e.op = "AddAsset" /\ e.res = "exc" /\ \E ni \in (IF e.reqId = NoId THEN {vNextId} ELSE {e.reqId}) :
                                                 AddAssetCollide(e.T, e.reqName, e.reqId, e.allowDup, ni, e.h)
  \/ /\ e.op = "AddAsset" /\ e.res = "collide" /\ AddAssetCollide(e.T, e.reqName, e.reqId, e.allowDup, e.id, e.h)
  \/ /\ e.op = "RemoveAsset" /\ e.res = "ok" /\ RemoveAssetOK(e.h)
  \/ /\ e.op = "RemoveAsset" /\ e.res = "exc" /\ RemoveAssetRej(e.h)
  \/ /\ e.op = "SetDefense" /\ SetDefense(e.h, e.d, e.v) /\ vAct'.res = e.res
  \/ /\ e.op = "SetAssetExtras" /\ SetAssetExtras(e.h, e.x)
  \/ /\ e.op = "AddAssociation" /\ AddAssociation(e.cls, e.l, e.r, e.h) /\ vAct'.res = e.res
  \/ /\ e.op = "RemoveAssociation" /\ e.res = "ok" /\ RemoveAssociationOK(e.h)
  \/ /\ e.op = "RemoveAssociation" /\ e.res = "exc" /\ RemoveAssociationRej(e.h)
  \/ /\ e.op = "RemoveFromAssoc" /\ RemoveFromAssoc(e.h, e.ah) /\ vAct'.res = e.res
  \/ /\ e.op = "SetAssocExtras" /\ SetAssocExtras(e.h, e.x)
  \/ /\ e.op = "AddAttacker" /\ e.res = "ok" /\ AddAttacker(e.reqId, e.reqName, e.id, e.name, e.ep, e.h)
  \/ /\ e.op = "RemoveAttacker" /\ e.res = "ok" /\ RemoveAttackerOK(e.h)
  \/ /\ e.op = "RemoveAttacker" /\ e.res = "exc" /\ RemoveAttackerRej(e.h)
  \/ /\ e.op = "AddEntryPoint" /\ AddEntryPoint(e.h, e.a, e.s)
  \/ /\ e.op = "RemoveEntryPoint" /\ RemoveEntryPoint(e.h, e.a, e.s)
  \/ /\ e.op = "SetEntryPoints" /\ SetEntryPoints(e.h, e.ep)

Step == /\ tid > 0 /\ pos > 0 /\ pos <= Len(Traces[tid].events)
        /\ ~OutOfDomain(CurEv)
        /\ Explained(CurEv)
        /\ (HasObs(CurEv) => ObsMatches(CurEv.obs))
        /\ pos' = pos + 1 /\ UNCHANGED tid
        /\ hist' = IF EmitObs THEN Append(hist, [act |-> vAct', obs |-> Obs']) ELSE hist
TraceNext == Choose \/ Step
TraceSpec == TraceInit /\ [][TraceNext]_tvars

\* one line per reached position: the harness keeps the high-water mark per trace
AtEnd == tid > 0 /\ pos > Len(Traces[tid].events)
Ood == tid > 0 /\ pos > 0 /\ pos <= Len(Traces[tid].events) /\ OutOfDomain(CurEv)
Progress == tid > 0 => PrintT(ToJson([kind |-> "pos", tid |-> Traces[tid].id, pos |-> pos, len |-> Len(Traces[tid].events),
                                       ood |-> Ood,
                                       hist |-> IF EmitObs /\ (AtEnd \/ Ood) THEN hist ELSE <<>>]))
==============================================================================
